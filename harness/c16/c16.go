// Correspondence generator for C16: the message comparers of /repo/pkg/cmp on pairs of messages
// made by mutating a common ancestor, and resource.Value with an equivalence under a backpressured
// Pull.
package main

import (
	"context"
	"fmt"
	"math"
	"strings"
	"time"

	"github.com/smart-core-os/sc-api/go/traits"
	"github.com/smart-core-os/sc-golang/internal/testproto"
	"github.com/smart-core-os/sc-golang/pkg/cmp"
	"github.com/smart-core-os/sc-golang/pkg/resource"
	"github.com/smart-core-os/sc-golang/verifharness/vcoq"
	"github.com/smart-core-os/sc-golang/verifharness/vh"
	"google.golang.org/protobuf/proto"
	"google.golang.org/protobuf/reflect/protoreflect"
	"google.golang.org/protobuf/types/known/durationpb"
	"google.golang.org/protobuf/types/known/timestamppb"
)

func init() { vh.Register("C16", genC16) }

func main() { vh.Main() }

// ---- comparer configurations (vcfg / ecfg of Cmp/C16Judge.v) ----

type vcfg struct {
	kind string // float | time | dur | durp
	a, b float64
	d    int64
}

func (c vcfg) coq() string {
	switch c.kind {
	case "float":
		return vcoq.App("VFloat", coqQ(c.a), coqQ(c.b))
	case "time":
		return vcoq.App("VTime", vcoq.Z(c.d))
	case "dur":
		return vcoq.App("VDur", vcoq.Z(c.d))
	}
	return vcoq.App("VDurP", coqQ(c.a))
}
func (c vcfg) js() any {
	switch c.kind {
	case "float":
		return map[string]any{"FloatValueApprox": []float64{c.a, c.b}}
	case "time":
		return map[string]any{"TimeValueWithin": c.d}
	case "dur":
		return map[string]any{"DurationValueWithin": c.d}
	}
	return map[string]any{"DurationValueWithinP": c.a}
}
func (c vcfg) real() cmp.Value {
	switch c.kind {
	case "float":
		return cmp.FloatValueApprox(c.a, c.b)
	case "time":
		return cmp.TimeValueWithin(time.Duration(c.d))
	case "dur":
		return cmp.DurationValueWithin(time.Duration(c.d))
	}
	return cmp.DurationValueWithinP(float32(c.a))
}

type ecfg struct {
	or bool
	vs []vcfg
}

func (e ecfg) coq() string {
	it := make([]string, len(e.vs))
	for i, v := range e.vs {
		it[i] = v.coq()
	}
	if e.or {
		return vcoq.App("EOr", vcoq.List(it))
	}
	return vcoq.App("EAnd", vcoq.List(it))
}
func (e ecfg) js() any {
	it := make([]any, len(e.vs))
	for i, v := range e.vs {
		it[i] = v.js()
	}
	if e.or {
		return map[string]any{"Equal(ValueOr)": it}
	}
	return map[string]any{"Equal": it}
}
func (e ecfg) real() cmp.Message {
	vs := make([]cmp.Value, len(e.vs))
	for i, v := range e.vs {
		vs[i] = v.real()
	}
	if e.or {
		return cmp.Equal(cmp.ValueOr(vs...))
	}
	return cmp.Equal(vs...)
}
func (e ecfg) tag() string {
	if len(e.vs) == 0 {
		return "cmp:default"
	}
	k := make([]string, len(e.vs))
	for i, v := range e.vs {
		k[i] = v.kind
	}
	if e.or {
		return "cmp:or(" + strings.Join(k, ",") + ")"
	}
	return "cmp:" + strings.Join(k, "+")
}

type c16 struct {
	tier string
	o    *vcoq.Out
	r    *vcoq.Rand
	g    *pairGen
}

type b4 [4]bool

func (b b4) coq() string {
	return "(" + vcoq.Bool(b[0]) + ", " + vcoq.Bool(b[1]) + ", " + vcoq.Bool(b[2]) + ", " + vcoq.Bool(b[3]) + ")"
}

// four calls f on (x,y), (y,x), (x,x), (y,y); (x,x) is called on two distinct but identical copies
// so that no pointer shortcut can answer.
func four(f cmp.Message, x, y, x2, y2 proto.Message) b4 {
	return b4{f(x, y), f(y, x), f(x, x2), f(y, y2)}
}

func cloneKeepNil(m proto.Message) proto.Message {
	if m == nil {
		return nil
	}
	if !m.ProtoReflect().IsValid() {
		return m // a typed nil pointer
	}
	// proto.Clone drops a negative zero in an implicit-presence float field (its merge copies
	// "non-zero" values only); a wire round trip is exact
	if b, err := (proto.MarshalOptions{}).Marshal(m); err == nil {
		c := m.ProtoReflect().New().Interface()
		if proto.Unmarshal(b, c) == nil {
			return c
		}
	}
	return proto.Clone(m)
}

// stripChangeTime clears change_time in every message whose short name is Change (harness-side
// statement of "modulo change_time"; compared with the Coq-side [strip] by agrees).
func stripChangeTime(m proto.Message) proto.Message {
	if m == nil || !m.ProtoReflect().IsValid() {
		return m
	}
	c := cloneKeepNil(m)
	var all []protoreflect.Message
	nodes(c.ProtoReflect(), &all)
	for _, n := range all {
		if n.IsValid() && n.Descriptor().Name() == "Change" {
			if fd := n.Descriptor().Fields().ByName("change_time"); fd != nil {
				n.Clear(fd)
			}
		}
	}
	return c
}

func (g *c16) direct(what, class string, js any) {
	g.o.Directs = append(g.o.Directs, vcoq.Direct{What: what, Class: class, Replay: js})
}

// pair evaluates every configuration of cfgs (and the And/Or combinations combs) on (x, y) and emits
// one case.
func (g *c16) pair(x, y proto.Message, cfgs []ecfg, combs [][]ecfg, tags []string, nontrivial bool) {
	g.pairT(x, y, cfgs, combs, nil, tags, nontrivial)
}

// pairT: pair with, in addition, cmp.Equal(t) for every combinator tree t of trees.
func (g *c16) pairT(x, y proto.Message, cfgs []ecfg, combs [][]ecfg, trees []vtree, tags []string, nontrivial bool) {
	x0, y0 := cloneKeepNil(x), cloneKeepNil(y)
	x2, y2 := cloneKeepNil(x), cloneKeepNil(y)
	js := map[string]any{"op": "pair", "x": jsMsg(x), "y": jsMsg(y), "mutations": tags}
	defer func() {
		if p := recover(); p != nil {
			g.direct(fmt.Sprintf("comparer panicked: %v", p), "panic:cmp", js)
		}
	}()
	peRaw := [2]bool{proto.Equal(x, y), proto.Equal(y, x)}
	sx, sy := stripChangeTime(x), stripChangeTime(y)
	peStrip := [2]bool{proto.Equal(sx, sy), proto.Equal(sy, sx)}
	var obs []string
	var jobs []any
	guard := optGuard(x0) && optGuard(y0) // of the trees as emitted
	for _, e := range cfgs {
		v := four(e.real(), x, y, x2, y2)
		obs = append(obs, vcoq.App("OEq", e.coq(), v.coq()))
		jobs = append(jobs, map[string]any{"cmp": e.js(), "xy_yx_xx_yy": v})
		tags = append(tags, e.tag())
		tags = append(tags, branchTags(e, x2, y2)...)
		guard = guard && e.guard()
	}
	for i, es := range combs {
		isOr := i%2 == 1
		ms := make([]cmp.Message, len(es))
		ec := make([]string, len(es))
		cc := make([]string, len(es))
		var ej []any
		for k, e := range es {
			ms[k] = e.real()
			guard = guard && e.guard()
			ec[k] = e.coq()
			cc[k] = four(ms[k], x, y, x2, y2).coq()
			ej = append(ej, e.js())
		}
		var comb cmp.Message
		if isOr {
			comb = cmp.Or(ms...)
			tags = append(tags, "cmp:Or")
		} else {
			comb = cmp.And(ms...)
			tags = append(tags, "cmp:And")
		}
		v := four(comb, x, y, x2, y2)
		obs = append(obs, vcoq.App("OComb", vcoq.Bool(isOr), vcoq.List(ec), vcoq.List(cc), v.coq()))
		jobs = append(jobs, map[string]any{"or": isOr, "of": ej, "xy_yx_xx_yy": v})
	}
	for _, t := range trees {
		v := four(cmp.Equal(t.real()), x, y, x2, y2)
		obs = append(obs, vcoq.App("OTree", t.coq(), v.coq()))
		jobs = append(jobs, map[string]any{"cmp": map[string]any{"Equal": []any{t.js()}}, "xy_yx_xx_yy": v})
		tags = append(tags, fmt.Sprintf("cmp:tree:depth-%d", t.depth()), "cmp:tree:"+t.shape())
		guard = guard && t.guard()
	}
	js["verdicts"] = jobs
	js["proto_equal"] = peRaw
	js["proto_equal_modulo_change_time"] = peStrip
	if !sameOrNaN(x, x0) || !sameOrNaN(y, y0) {
		g.direct("a comparer modified its argument", "argument-mutated:cmp", js)
	}
	coq := vcoq.App("KPair", coqOpt(x0), coqOpt(y0),
		vcoq.Pair(vcoq.Bool(peRaw[0]), vcoq.Bool(peRaw[1])), vcoq.Pair(vcoq.Bool(peStrip[0]), vcoq.Bool(peStrip[1])),
		vcoq.List(obs))
	if peRaw[0] {
		tags = append(tags, "pair:proto-equal")
	} else if peStrip[0] {
		tags = append(tags, "pair:equal-modulo-change-time")
	} else {
		tags = append(tags, "pair:different")
	}
	tags = append(tags, guardTag(guard))
	g.o.Add(vcoq.Case{Coq: kg(guard, coq), JSON: js, Key: coq, NonTrivial: nontrivial, Tags: dedup(tags)})
}

func dedup(tags []string) []string {
	seen := map[string]bool{}
	var out []string
	for _, t := range tags {
		if !seen[t] {
			seen[t] = true
			out = append(out, t)
		}
	}
	return out
}

func sameOrNaN(a, b proto.Message) bool {
	if a == nil || b == nil {
		return a == nil && b == nil
	}
	return proto.Equal(a, b)
}

// tolerances below / at / above a difference
func around(r *vcoq.Rand, d int64) int64 {
	switch r.Intn(5) {
	case 0:
		return d - 1
	case 1, 2:
		return d
	case 3:
		return d + 1
	}
	return []int64{0, 1000000000, 3000000000}[r.Intn(3)]
}

func (g *c16) configsFor(ms []mut) (cfgs []ecfg, combs [][]ecfg) {
	r := g.r
	df, dn := 0.5, int64(1000000000)
	for _, m := range ms {
		if m.dFloat != 0 {
			df = m.dFloat
		}
		if m.dNanos != 0 {
			dn = m.dNanos
		}
	}
	margins := []float64{df / 2, df, df * 2, 0}
	fractions := []float64{0, 0, 0.125, 0.25, 0.5}
	fl := func() vcfg {
		return vcfg{kind: "float", a: fractions[r.Intn(len(fractions))], b: margins[r.Intn(len(margins))]}
	}
	tm := func() vcfg { return vcfg{kind: "time", d: max64(0, around(r, dn))} }
	du := func() vcfg { return vcfg{kind: "dur", d: max64(0, around(r, dn))} }
	cfgs = []ecfg{
		{},
		{vs: []vcfg{fl()}}, {vs: []vcfg{fl()}},
		{vs: []vcfg{tm()}}, {vs: []vcfg{tm()}},
		{vs: []vcfg{du()}}, {vs: []vcfg{du()}},
		{vs: []vcfg{fl(), tm(), du()}},
		{vs: []vcfg{fl(), {kind: "float"}, du(), {kind: "dur"}}}, // a loose comparer before an exact one of its kind
		// the first comparer of each kind is exact, so a later one has to be consulted
		{or: true, vs: []vcfg{{kind: "float"}, fl(), {kind: "time"}, tm()}},
		{or: true, vs: []vcfg{{kind: "dur"}, du()}},
	}
	combs = [][]ecfg{
		{{vs: []vcfg{fl()}}, {vs: []vcfg{tm()}}, {vs: []vcfg{du()}}}, // And
		{{}, {vs: []vcfg{fl()}}, {vs: []vcfg{du()}}},                 // Or
	}
	if r.Chance(20) {
		combs = append(combs, []ecfg{}, []ecfg{}) // And() and Or() of nothing
	}
	return
}

// treesFor: three random combinator trees (depth up to 3) over leaves with tolerances below / at / above the
// injected differences, and exact leaves.
func (g *c16) treesFor(ms []mut) []vtree {
	r := g.r
	df, dn := 0.5, int64(1000000000)
	for _, m := range ms {
		if m.dFloat != 0 {
			df = m.dFloat
		}
		if m.dNanos != 0 {
			dn = m.dNanos
		}
	}
	margins := []float64{df / 2, df, df * 2, 0}
	leaves := []func() vcfg{
		func() vcfg {
			return vcfg{kind: "float", a: []float64{0, 0, 0.25}[r.Intn(3)], b: margins[r.Intn(len(margins))]}
		},
		func() vcfg { return vcfg{kind: "time", d: max64(0, around(r, dn))} },
		func() vcfg { return vcfg{kind: "dur", d: max64(0, around(r, dn))} },
		func() vcfg { return vcfg{kind: []string{"float", "time", "dur"}[r.Intn(3)]} },
	}
	out := make([]vtree, 3)
	for i := range out {
		out[i] = randTree(r, 2+r.Intn(2), leaves)
		if out[i].leaf != nil { // at least one combination
			out[i] = vtree{or: r.Bool(), kids: []vtree{out[i], randTree(r, 2, leaves)}}
		}
	}
	return out
}

func max64(a, b int64) int64 {
	if a > b {
		return a
	}
	return b
}

func (g *c16) randomPairs(n int) {
	r := g.r
	for i := 0; i < n; i++ {
		root := rootTypes[0]
		if r.Chance(40) {
			root = rootTypes[1+r.Intn(len(rootTypes)-1)]
		}
		a := g.g.ancestor(root)
		x, y := proto.Clone(a), proto.Clone(a)
		k := r.Intn(4)
		var ms []mut
		var tags []string
		for j := 0; j < k; j++ {
			kind := mutKinds[r.Intn(len(mutKinds))]
			if r.Chance(12) {
				kind = []string{"map-entry", "list-element", "unknown-field"}[r.Intn(3)]
			}
			if _, isTAT := a.(*testproto.TestAllTypes); !isTAT && r.Chance(35) {
				kind = "change-time"
			}
			if m, ok := g.g.mutate(kind, x, y); ok {
				ms = append(ms, m)
				tags = append(tags, "mut:"+kind)
			}
		}
		tags = append(tags, fmt.Sprintf("mutations:%d", len(ms)), "type:"+string(a.ProtoReflect().Descriptor().Name()))
		cfgs, combs := g.configsFor(ms)
		g.pairT(x, y, cfgs, combs, g.treesFor(ms), tags, len(ms) > 0)
		if i%6 == 0 {
			// DurationValueWithinP separately (its own known-finding class)
			p := []float64{0.5, 0.75, 1, 1.5, 2, 3}[r.Intn(6)]
			g.pair(x, y, []ecfg{{vs: []vcfg{{kind: "durp", a: p}}}}, nil, append(tags[:len(tags):len(tags)], "durp"), len(ms) > 0)
		}
	}
}

// nilAndTypes: nil interfaces, typed nil pointers, different message types.
func (g *c16) nilAndTypes() {
	r := g.r
	var tnil *testproto.TestAllTypes
	var fnil *testproto.ForeignMessage
	base := []proto.Message{nil, tnil, fnil, &testproto.TestAllTypes{}, &testproto.ForeignMessage{}, &testproto.WellKnown{},
		&testproto.ForeignMessage{C: 1}, &traits.Brightness{}, &traits.Brightness{LevelPercent: 1},
		&timestamppb.Timestamp{Seconds: 1}, &durationpb.Duration{Seconds: 1}, &timestamppb.Timestamp{}, &durationpb.Duration{}}
	base = append(base, g.g.ancestor(rootTypes[0]), g.g.ancestor(rootTypes[1]))
	for _, x := range base {
		for _, y := range base {
			cfgs := []ecfg{{}, {vs: []vcfg{{kind: "float", b: 0.5}, {kind: "time", d: 1}, {kind: "dur", d: 1}}}}
			combs := [][]ecfg{{{}, {vs: []vcfg{{kind: "time", d: int64(r.Intn(3))}}}}, {{}, {vs: []vcfg{{kind: "dur", d: 2}}}}}
			g.pair(x, y, cfgs, combs, []string{"mut:nil-or-different-type"}, true)
		}
	}
}

// special floats, extreme durations and timestamps: the corners DESIGN.md section 7 lists.
func (g *c16) corners() {
	dbl := func(f float64) proto.Message {
		return &testproto.TestAllTypes{DefaultDouble: f, RepeatedFloat: []float32{float32(f)}}
	}
	specials := []float64{math.NaN(), math.Inf(1), math.Inf(-1), 0, math.Copysign(0, -1), 1, 1.5, -1}
	for _, a := range specials {
		for _, b := range specials {
			cfgs := []ecfg{{}, {vs: []vcfg{{kind: "float", a: 0, b: 0}}}, {vs: []vcfg{{kind: "float", a: 0, b: 0.5}}},
				{vs: []vcfg{{kind: "float", a: 0.5, b: 0}}}, {vs: []vcfg{{kind: "float", a: 0.25, b: 2}}}}
			g.pair(dbl(a), dbl(b), cfgs, nil, []string{"mut:special-floats"}, true)
		}
	}
	// floats on which float64 arithmetic rounds, overflows or is subnormal (outside the guard of the ideal
	// comparison; the model is Flocq binary64): decimal fractions, neighbours, the ends of the range
	rounding := []float64{0.1, 0.2, 0.30000000000000004, 5e-324, 1.5e-323, 9007199254740992, -1, math.MaxFloat64, -math.MaxFloat64}
	if g.tier == "thorough" {
		rounding = append(rounding, 0.3, 1.0/3, 2.2250738585072014e-308, 9007199254740994, -0.1, 1e-9, 1e308, 16777217, 0)
	}
	for _, a := range rounding {
		for _, b := range rounding {
			cfgs := []ecfg{{vs: []vcfg{{kind: "float", a: 0, b: 0.1}}}, {vs: []vcfg{{kind: "float", a: 0.1, b: 0}}},
				{vs: []vcfg{{kind: "float", a: 1.5, b: 0}}}, {vs: []vcfg{{kind: "float", a: 0, b: 9007199254740992}}},
				{vs: []vcfg{{kind: "float", a: -0.5, b: -1}}}, {vs: []vcfg{{kind: "float", a: 2, b: math.MaxFloat64}}}}
			if g.tier == "thorough" {
				cfgs = append(cfgs, ecfg{}, ecfg{vs: []vcfg{{kind: "float", a: 1e-9, b: 1e-12}}}, ecfg{vs: []vcfg{{kind: "float", a: 0.5, b: 5e-324}}})
			}
			g.pair(dbl(a), dbl(b), cfgs, nil, []string{"mut:rounding-floats"}, true)
		}
	}
	dur := func(s int64, n int32) proto.Message {
		return &testproto.WellKnown{DefaultDuration: &durationpb.Duration{Seconds: s, Nanos: n}}
	}
	// seconds: small, around the int64-nanosecond limit (9223372036 s), beyond it (saturating), huge
	secs := []int64{0, 1, 2, -1, 4611686018, -4611686018, 9000000000, -9000000000, 9223372036, -9223372036,
		9223372037, -9223372037, 10000000000, 20000000000, -20000000000, 315576000000, math.MaxInt64, math.MinInt64}
	for _, a := range secs {
		for _, b := range secs {
			na, nb := int32(0), int32(0)
			if g.r.Chance(30) {
				na = int32([]int{1, -1, 999999999, 854775807, 854775808}[g.r.Intn(5)])
			}
			if g.r.Chance(30) {
				nb = int32([]int{1, -1, 999999999, -854775808, -854775809}[g.r.Intn(5)])
			}
			cfgs := []ecfg{{}, {vs: []vcfg{{kind: "dur", d: 0}}}, {vs: []vcfg{{kind: "dur", d: 1000000000}}},
				{vs: []vcfg{{kind: "dur", d: math.MaxInt64 - 1}}}, {vs: []vcfg{{kind: "dur", d: math.MaxInt64}}}}
			g.pair(dur(a, na), dur(b, nb), cfgs, nil, []string{"mut:extreme-durations"}, true)
		}
	}
	// the branches of durationsWithin at their edges: seconds exactly maxDurationSeconds apart and one more with the
	// nanos pulling the other way as far as an int32 goes (within MaxInt64 ns / not), nanos outweighing the seconds,
	// the int64 ends of the seconds (their difference needs all 64 bits)
	type sn struct {
		s int64
		n int32
	}
	edges := [][2]sn{{{9223372041, math.MinInt32}, {0, math.MaxInt32}}, {{9223372042, math.MinInt32}, {0, math.MaxInt32}},
		{{9223372041, 0}, {0, 0}}, {{9223372036, 854775807}, {0, 0}}, {{9223372036, 854775807}, {0, -1}}, {{9223372037, -145224193}, {0, 0}},
		{{-9223372041, math.MaxInt32}, {0, math.MinInt32}}, {{-4611686021, math.MaxInt32}, {4611686021, math.MinInt32}},
		{{1, math.MinInt32}, {0, math.MaxInt32}}, {{2, -2000000001}, {0, 0}}, {{4, math.MinInt32}, {0, math.MaxInt32}}, {{5, math.MinInt32}, {0, math.MaxInt32}},
		{{math.MaxInt64, 0}, {math.MinInt64, 0}}, {{math.MaxInt64, math.MaxInt32}, {math.MaxInt64, math.MinInt32}}, {{math.MinInt64, 5}, {math.MinInt64, 3}},
		{{315576000000, 0}, {315575999999, 999999999}}, {{315576000000, 0}, {-315576000000, 0}}, {{315576000000, 1}, {315576000000, 0}}}
	for _, e := range edges {
		cfgs := []ecfg{{vs: []vcfg{{kind: "dur", d: 0}}}, {vs: []vcfg{{kind: "dur", d: 1}}}, {vs: []vcfg{{kind: "dur", d: 2}}}, {vs: []vcfg{{kind: "dur", d: 1000000000}}},
			{vs: []vcfg{{kind: "dur", d: 4294967295}}}, {vs: []vcfg{{kind: "dur", d: 9223372036705032704}}}, {vs: []vcfg{{kind: "dur", d: 9223372036705032705}}},
			{vs: []vcfg{{kind: "dur", d: math.MaxInt64 - 1}}}, {vs: []vcfg{{kind: "dur", d: math.MaxInt64}}}}
		g.pair(dur(e[0].s, e[0].n), dur(e[1].s, e[1].n), cfgs, nil, []string{"mut:extreme-durations", "mut:duration-edges"}, true)
	}
	small := []int64{0, 1, 2, 3, 4, 6, 8, -1, -2, -4}
	for _, a := range small {
		for _, b := range small {
			for _, p := range []float64{0.75, 1, 2.5} {
				g.pair(dur(a, 0), dur(b, 0), []ecfg{{vs: []vcfg{{kind: "durp", a: p}}}}, nil, []string{"mut:durp-grid", "durp"}, true)
			}
		}
	}
	ts := func(s int64, n int32) proto.Message {
		return &testproto.WellKnown{DefaultTimestamp: &timestamppb.Timestamp{Seconds: s, Nanos: n}}
	}
	tsecs := []int64{0, 1, -1, 253402300799, -62135596800, 9223372036, -9223372037, 10000000000, -(1 << 59), 1 << 60, 1<<60 + 1, math.MaxInt64, math.MinInt64,
		math.MaxInt64 - 62135596800, math.MaxInt64 - 62135596799}
	if g.tier == "thorough" {
		tsecs = append(tsecs, 9223372037, 1<<59, 1<<62)
	}
	for _, a := range tsecs {
		for _, b := range tsecs {
			na := int32([]int{0, 0, 1, 999999999, -1, 1000000000, math.MaxInt32, math.MinInt32}[g.r.Intn(8)])
			nb := int32([]int{0, 0, 1, 999999999, -1, 1000000000, math.MaxInt32, math.MinInt32}[g.r.Intn(8)])
			cfgs := []ecfg{{}, {vs: []vcfg{{kind: "time", d: 0}}}, {vs: []vcfg{{kind: "time", d: 1000000000}}},
				{vs: []vcfg{{kind: "time", d: 3000000000}}}, {vs: []vcfg{{kind: "time", d: math.MaxInt64 - 1}}},
				{vs: []vcfg{{kind: "time", d: math.MaxInt64}}}}
			g.pair(ts(a, na), ts(b, nb), cfgs, nil, []string{"mut:extreme-timestamps"}, true)
		}
	}
	// exactly the largest Duration apart, one nanosecond more, one less (Sub saturates / Add gives the time back)
	edge := [][2]proto.Message{
		{ts(0, 0), ts(9223372036, 854775807)}, {ts(0, 0), ts(9223372036, 854775806)}, {ts(0, 0), ts(9223372036, 854775808)},
		{ts(-9223372036, -854775807), ts(0, 0)}, {ts(-9223372036, -854775808), ts(0, 0)}, {ts(-4611686018, -427387904), ts(4611686018, 427387903)},
		{ts(-4611686018, -427387904), ts(4611686018, 427387904)}, {ts(1, 5), ts(9223372037, 854775812)}, {ts(1, 5), ts(9223372037, 854775813)},
	}
	for _, p := range edge {
		cfgs := []ecfg{{}, {vs: []vcfg{{kind: "time", d: math.MaxInt64}}}, {vs: []vcfg{{kind: "time", d: math.MaxInt64 - 1}}}, {vs: []vcfg{{kind: "time", d: 0}}}}
		g.pair(p[0], p[1], cfgs, nil, []string{"mut:max-duration-apart"}, true)
	}
	// unknown fields: every pair of a fixed family of raw-field sequences (one number repeated, a
	// second number interleaved), at the root and inside a sub-message
	A := func(v uint64) []byte { return unknownField(20000, v) }
	B := unknownBytesField(20001, "b")
	cat := func(parts ...[]byte) []byte {
		var out []byte
		for _, p := range parts {
			out = append(out, p...)
		}
		return out
	}
	seqs := [][]byte{
		nil, A(1), A(3), cat(A(1), A(3)), cat(A(2), A(3)), cat(A(1), A(2)), cat(A(3), A(1)), cat(A(1), A(1)),
		cat(A(1), A(2), A(3)), cat(A(9), A(2), A(3)), cat(A(1), A(9), A(3)), cat(A(1), A(2), A(9)), cat(A(3), A(2), A(1)),
		cat(A(1), A(300)), cat(A(300), A(3)), cat(A(1), B, A(3)), cat(B, A(1), A(3)), cat(A(1), A(3), B), cat(A(2), B, A(3)),
		cat(A(1), B, A(2)), B, cat(B, B),
	}
	for i, ux := range seqs {
		for j, uy := range seqs {
			mk := func(u []byte, nested bool) proto.Message {
				m := &testproto.TestAllTypes{DefaultInt32: 1, DefaultNestedMessage: &testproto.TestAllTypes_NestedMessage{A: 2}}
				if nested {
					m.DefaultNestedMessage.ProtoReflect().SetUnknown(u)
				} else {
					m.ProtoReflect().SetUnknown(u)
				}
				return m
			}
			nested := (i+j)%3 == 0
			g.pair(mk(ux, nested), mk(uy, nested), []ecfg{{}, {vs: []vcfg{{kind: "float", b: 0.5}}}}, nil, []string{"mut:unknown-grid"}, true)
		}
	}
	// nil elements of a repeated message field (outside the guard: watched for model fidelity only)
	withNil := &testproto.TestAllTypes{RepeatedWellKnown: []*testproto.WellKnown{nil}}
	withEmpty := &testproto.TestAllTypes{RepeatedWellKnown: []*testproto.WellKnown{{}}}
	g.pair(withNil, withEmpty, []ecfg{{}, {vs: []vcfg{{kind: "time", d: 1}}}}, nil, []string{"mut:nil-list-element"}, false)
}

// ---- resource level: Value with an equivalence, backpressured Pull ----

func (g *c16) stream(e ecfg, seed proto.Message, writes []proto.Message) {
	js := map[string]any{"op": "stream", "equivalence": e.js(), "seed": jsMsg(seed)}
	var wj []any
	for _, w := range writes {
		wj = append(wj, jsMsg(w))
	}
	js["writes"] = wj
	opts := []resource.Option{resource.WithMessageEquivalence(e.real())}
	if len(e.vs) == 0 {
		opts = []resource.Option{resource.WithNoDuplicates()}
	}
	if seed != nil {
		opts = append(opts, resource.WithInitialValue(proto.Clone(seed)))
	}
	val := resource.NewValue(opts...)
	ctx, cancel := context.WithCancel(context.Background())
	defer cancel()
	ch := val.Pull(ctx, resource.WithBackpressure(true))
	barrier := &testproto.TestAllTypes{DefaultString: "barrier", DefaultDouble: 1048576}
	got := make(chan []proto.Message, 1)
	go func() {
		var l []proto.Message
		for c := range ch {
			if t, ok := c.Value.(*testproto.TestAllTypes); ok && t.DefaultString == "barrier" {
				break
			}
			l = append(l, proto.Clone(c.Value))
		}
		got <- l
	}()
	for _, w := range writes {
		if _, err := val.Set(proto.Clone(w)); err != nil {
			g.direct("Value.Set failed: "+err.Error(), "stream:set-error", js)
			return
		}
	}
	val.Set(barrier)
	var emitted []proto.Message
	select {
	case emitted = <-got:
	case <-time.After(5 * time.Second):
		g.direct("the barrier write was never delivered", "stream:barrier-lost", js)
		return
	}
	var ej []any
	ec := make([]string, len(emitted))
	for i, m := range emitted {
		ec[i] = coqMsg(m)
		ej = append(ej, jsMsg(m))
	}
	js["emitted"] = ej
	wc := make([]string, len(writes))
	for i, w := range writes {
		wc[i] = coqMsg(w)
	}
	coq := vcoq.App("KStream", e.coq(), coqOpt(seed), vcoq.List(wc), vcoq.List(ec))
	guard := e.guard() && optGuard(seed)
	for _, w := range writes {
		guard = guard && optGuard(w)
	}
	g.o.Add(vcoq.Case{Coq: kg(guard, coq), JSON: js, Key: coq, NonTrivial: len(writes) > 1,
		Tags: []string{"stream", "stream:" + e.tag(), fmt.Sprintf("stream-suppressed:%d", min(len(writes)+btoi(seed != nil)-len(emitted), 4)), guardTag(guard)}})
}

// collStream: a Collection with an equivalence holding item "a"; the subscriber is seeded with it and
// the item is then updated to each of writes.
func (g *c16) collStream(e ecfg, seed proto.Message, writes []proto.Message) {
	js := map[string]any{"op": "collection-stream", "equivalence": e.js(), "seed": jsMsg(seed)}
	var wj []any
	for _, w := range writes {
		wj = append(wj, jsMsg(w))
	}
	js["writes"] = wj
	opts := []resource.Option{resource.WithMessageEquivalence(e.real())}
	if len(e.vs) == 0 {
		opts = []resource.Option{resource.WithNoDuplicates()}
	}
	coll := resource.NewCollection(opts...)
	if _, err := coll.Add("a", proto.Clone(seed)); err != nil {
		g.direct("Collection.Add failed: "+err.Error(), "stream:set-error", js)
		return
	}
	ctx, cancel := context.WithCancel(context.Background())
	defer cancel()
	ch := coll.Pull(ctx, resource.WithBackpressure(true))
	got := make(chan []proto.Message, 1)
	go func() {
		var l []proto.Message
		for c := range ch {
			if c.Id == "barrier" {
				break
			}
			if c.NewValue != nil {
				l = append(l, proto.Clone(c.NewValue))
			}
		}
		got <- l
	}()
	for _, w := range writes {
		if _, err := coll.Update("a", proto.Clone(w)); err != nil {
			g.direct("Collection.Update failed: "+err.Error(), "stream:set-error", js)
			return
		}
	}
	coll.Add("barrier", &testproto.TestAllTypes{DefaultString: "barrier"})
	var emitted []proto.Message
	select {
	case emitted = <-got:
	case <-time.After(5 * time.Second):
		g.direct("the barrier item was never delivered", "stream:barrier-lost", js)
		return
	}
	var ej []any
	ec := make([]string, len(emitted))
	for i, m := range emitted {
		ec[i] = coqMsg(m)
		ej = append(ej, jsMsg(m))
	}
	js["emitted"] = ej
	wc := make([]string, len(writes))
	for i, w := range writes {
		wc[i] = coqMsg(w)
	}
	coq := vcoq.App("KCollStream", e.coq(), coqMsg(seed), vcoq.List(wc), vcoq.List(ec))
	guard := e.guard() && optGuard(seed)
	for _, w := range writes {
		guard = guard && optGuard(w)
	}
	g.o.Add(vcoq.Case{Coq: kg(guard, coq), JSON: js, Key: coq, NonTrivial: len(writes) > 1,
		Tags: []string{"collection-stream", "collection-stream:" + e.tag(),
			fmt.Sprintf("collection-stream-suppressed:%d", min(len(writes)+1-len(emitted), 4)), guardTag(guard)}})
}

func btoi(b bool) int {
	if b {
		return 1
	}
	return 0
}

func (g *c16) streams(n int) {
	r := g.r
	// the drift of DESIGN.md section 7: steps of 0.25 under a margin of 0.5, on a Value and on a Collection
	d := func(v float64) proto.Message { return &testproto.TestAllTypes{DefaultDouble: v} }
	half := ecfg{vs: []vcfg{{kind: "float", b: 0.5}}}
	g.stream(half, d(1), []proto.Message{d(1.25), d(1.5), d(1.75), d(2), d(2.25)})
	g.collStream(half, d(1), []proto.Message{d(1.25), d(1.5), d(1.75), d(2), d(2.25)})
	for i := 0; i < n; i++ {
		var e ecfg
		switch r.Intn(4) {
		case 0: // WithNoDuplicates
		case 1:
			e = ecfg{vs: []vcfg{{kind: "float", b: []float64{0.25, 0.5, 1}[r.Intn(3)]}}}
		case 2:
			e = ecfg{vs: []vcfg{{kind: "float", b: 0.5}, {kind: "time", d: 1000000000}}}
		default:
			e = ecfg{vs: []vcfg{{kind: "time", d: []int64{0, 500000000, 2000000000}[r.Intn(3)]}}}
		}
		// a slowly drifting value: consecutive writes are mostly within tolerance of each other, so
		// that "last delivered" and "previous write" differ
		v, t := dyadics[r.Intn(len(dyadics))], int64(r.Range(0, 5))*1000000000
		mk := func() proto.Message {
			m := &testproto.TestAllTypes{DefaultDouble: v}
			if r.Chance(70) {
				m.DefaultWellKnown = &testproto.WellKnown{DefaultTimestamp: &timestamppb.Timestamp{Seconds: t / 1000000000, Nanos: int32(t % 1000000000)}}
			}
			if math.IsNaN(v) || r.Chance(10) {
				m.RepeatedDouble = []float64{v}
			}
			return m
		}
		var seed proto.Message
		if r.Chance(70) {
			seed = mk()
		}
		var writes []proto.Message
		nw := r.Range(1, 8)
		drift := r.Chance(45) // every step within tolerance of the previous write: only "last delivered" tells
		for k := 0; k < nw; k++ {
			step := r.Intn(6)
			if drift {
				step = 1 + r.Intn(3)
			}
			switch step {
			case 0: // repeat
			case 1, 2:
				if drift {
					v += []float64{0.25, 0.125}[r.Intn(2)]
				} else {
					v += []float64{0.25, -0.25, 0.125, 0.5}[r.Intn(4)]
				}
			case 3:
				if drift {
					t += []int64{250000000, 500000000}[r.Intn(2)]
				} else {
					t += []int64{250000000, 500000000, 1000000000, 1}[r.Intn(4)]
				}
			case 4:
				v = dyadics[r.Intn(len(dyadics))]
			default:
				if r.Chance(15) {
					v = math.NaN()
				} else {
					v += 1
				}
			}
			if math.IsNaN(v) && r.Chance(50) && k > 0 {
				v = 1
			}
			writes = append(writes, mk())
		}
		g.stream(e, seed, writes)
		if seed != nil && i%4 == 0 {
			g.collStream(e, seed, writes)
		}
	}
}

func genC16(o *vcoq.Out, r *vcoq.Rand, tier string) error {
	o.Header = "From Coq Require Import QArith.\nFrom SC Require Import Base.Prelude Cmp.Cmp Cmp.Logic Cmp.C16Judge."
	o.CaseType = "c16case"
	o.Judge = "judge"
	o.Shard = 40
	o.Rule = "pairs: a random TestAllTypes (60%) or trait message (PullBrightnessResponse, PullEnergyLevelResponse, ElectricMode) cloned twice, one clone mutated in 0-3 places (kinds in the mut:* tags), floats dyadic, each pair judged under the default comparer, two FloatValueApprox, two TimeValueWithin, two DurationValueWithin with tolerances below/at/above the injected difference, Equal of all three, Equal(ValueOr), And and Or of Equal comparers, three random combinator TREES (ValueAnd / ValueOr nested to depth 2-3 over leaves of different kinds, empty and non-applicable combinations included), on (x,y), (y,x), (x,x), (y,y); plus exhaustive grids: 23 fixed tree shapes x 27 messages differing in a double / timestamp / duration by less and more than the tolerances, nil / typed nil / 13 message types pairwise, 8x8 special floats, 9x9 floats on which float64 arithmetic rounds / overflows / is subnormal (18x18 in thorough), 11x11 negative and mixed-sign dyadic floats x 7 fraction/margin configurations (singular, list, float32 and map values), 18x18 extreme durations and 15x15 extreme timestamps incl. tolerance math.MaxInt64, pairs exactly MaxInt64 ns apart +-1, tolerances on map values and list elements only, maps of equal size with different keys, change_time inside / outside a Change and a Change at the top, negative tolerances, 22x22 unknown-field sequences, DurationValueWithinP on a 10x10x3 grid; streams: resource.Value with WithNoDuplicates or a tolerance equivalence, optional seed, 1-8 drifting writes, backpressured Pull (a fifth also through WithReadPaths over top-level fields incl. the empty mask, with writes that change only hidden fields); one-item and whole resource.Collections (up to 3 ids, add / update / delete / re-add, WithInclude(default_double >= threshold), WithUpdatesOnly, read masks, Change messages) with every delivered change; whole Collections pulled WITHOUT backpressure by a reader that is behind during each phase (a plug write parks the subscription, a script with delete + re-add of seeded and unseeded ids with the same / an equivalent / a different value, update runs, add + delete piles up in the merge stage, a barrier write, drain; 1-4 phases, seeded or updates-only, optional include), every delivered change compared with the composition of the merge-stage model and the held-map loop and judged against what the subscriber holds. The guard computed by the generator is checked against the judge's (KG). Non-trivial: at least one mutation applied / grid pair / stream or collection with >= 2 writes. Distinct by the full case term."
	g := &c16{o: o, r: r, g: &pairGen{r: r}, tier: tier}
	scale := 1
	if tier == "thorough" {
		scale = 12
	}
	g.nilAndTypes()
	g.treeGrid()
	g.corners()
	g.randomPairs(300 * scale)
	g.streams(200 * scale)
	g.collections(100 * scale)
	g.lossyCollections(80 * scale)
	g.moreCorners()
	g.masked(60 * scale)
	return nil
}
