package main

import (
	"math"

	"github.com/smart-core-os/sc-api/go/traits"
	"github.com/smart-core-os/sc-golang/internal/testproto"
	"github.com/smart-core-os/sc-golang/verifharness/vcoq"
	"github.com/smart-core-os/sc-golang/verifharness/vmsg"
	"google.golang.org/protobuf/encoding/protowire"
	"google.golang.org/protobuf/proto"
	"google.golang.org/protobuf/reflect/protoreflect"
)

const (
	tsName  = "google.protobuf.Timestamp"
	durName = "google.protobuf.Duration"
)

// dyadic values: every operation FloatValueApprox performs on them is exact in float64, and they are
// exact in float32
var dyadics = []float64{0, 0.25, 0.5, 1, 1.5, 2, 2.5, -3, 4, 100, -0.125, 7.75}
var deltas = []float64{0.125, 0.25, 0.5, 1, 2}

type mut struct {
	kind string
	// the size of a perturbation of a tolerance kind, to pick tolerances around it
	dFloat float64
	dNanos int64
}

type pairGen struct {
	r *vcoq.Rand
}

// nodes lists every message reachable through populated fields (root first), skipping the inside of
// Timestamp and Duration.
func nodes(m protoreflect.Message, out *[]protoreflect.Message) {
	*out = append(*out, m)
	n := m.Descriptor().FullName()
	if n == tsName || n == durName || !m.IsValid() {
		return
	}
	m.Range(func(fd protoreflect.FieldDescriptor, v protoreflect.Value) bool {
		switch {
		case fd.IsList() && fd.Message() != nil:
			for i := 0; i < v.List().Len(); i++ {
				nodes(v.List().Get(i).Message(), out)
			}
		case fd.IsMap() && fd.MapValue().Message() != nil:
			v.Map().Range(func(_ protoreflect.MapKey, e protoreflect.Value) bool {
				nodes(e.Message(), out)
				return true
			})
		case fd.Message() != nil && !fd.IsMap():
			nodes(v.Message(), out)
		}
		return true
	})
}

func (g *pairGen) pickNode(m proto.Message, ok func(protoreflect.Message) bool) protoreflect.Message {
	var all, c []protoreflect.Message
	nodes(m.ProtoReflect(), &all)
	for _, n := range all {
		if n.IsValid() && ok(n) {
			c = append(c, n)
		}
	}
	if len(c) == 0 {
		return nil
	}
	return c[g.r.Intn(len(c))]
}

func (g *pairGen) pickField(n protoreflect.Message, ok func(protoreflect.FieldDescriptor) bool) protoreflect.FieldDescriptor {
	var c []protoreflect.FieldDescriptor
	fds := n.Descriptor().Fields()
	for i := 0; i < fds.Len(); i++ {
		if ok(fds.Get(i)) {
			c = append(c, fds.Get(i))
		}
	}
	if len(c) == 0 {
		return nil
	}
	return c[g.r.Intn(len(c))]
}

func isFloat(fd protoreflect.FieldDescriptor) bool {
	k := fd.Kind()
	if fd.IsMap() {
		k = fd.MapValue().Kind()
	}
	return k == protoreflect.FloatKind || k == protoreflect.DoubleKind
}

func floatVal(fd protoreflect.FieldDescriptor, f float64) protoreflect.Value {
	k := fd.Kind()
	if fd.IsMap() {
		k = fd.MapValue().Kind()
	}
	if k == protoreflect.FloatKind {
		return protoreflect.ValueOfFloat32(float32(f))
	}
	return protoreflect.ValueOfFloat64(f)
}

func (g *pairGen) scalar(fd protoreflect.FieldDescriptor) protoreflect.Value {
	r := g.r
	switch fd.Kind() {
	case protoreflect.BoolKind:
		return protoreflect.ValueOfBool(r.Bool())
	case protoreflect.Int32Kind, protoreflect.Sint32Kind, protoreflect.Sfixed32Kind:
		return protoreflect.ValueOfInt32(int32([]int64{0, 1, 2, -1, 5}[r.Intn(5)]))
	case protoreflect.Int64Kind, protoreflect.Sint64Kind, protoreflect.Sfixed64Kind:
		return protoreflect.ValueOfInt64([]int64{0, 1, 2, -1, 5}[r.Intn(5)])
	case protoreflect.Uint32Kind, protoreflect.Fixed32Kind:
		return protoreflect.ValueOfUint32(uint32(r.Intn(4)))
	case protoreflect.Uint64Kind, protoreflect.Fixed64Kind:
		return protoreflect.ValueOfUint64(uint64(r.Intn(4)))
	case protoreflect.FloatKind:
		return protoreflect.ValueOfFloat32(float32(dyadics[r.Intn(len(dyadics))]))
	case protoreflect.DoubleKind:
		return protoreflect.ValueOfFloat64(dyadics[r.Intn(len(dyadics))])
	case protoreflect.StringKind:
		return protoreflect.ValueOfString([]string{"", "a", "b", "c"}[r.Intn(4)])
	case protoreflect.BytesKind:
		return protoreflect.ValueOfBytes([]byte([]string{"", "a", "\x00\xff"}[r.Intn(3)]))
	case protoreflect.EnumKind:
		vs := fd.Enum().Values()
		return protoreflect.ValueOfEnum(vs.Get(r.Intn(vs.Len())).Number())
	}
	panic("c16: kind " + fd.Kind().String())
}

// setRandom populates fd of n with a fresh random value (messages: empty or with a field or two).
func (g *pairGen) setRandom(n protoreflect.Message, fd protoreflect.FieldDescriptor) {
	fillMsg := func(m protoreflect.Message) {
		fds := m.Descriptor().Fields()
		for i := 0; i < fds.Len() && i < 4; i++ {
			f := fds.Get(i)
			if f.Message() == nil && !f.IsList() && !f.IsMap() && g.r.Chance(50) {
				m.Set(f, g.scalar(f))
			}
		}
	}
	switch {
	case fd.IsList():
		l := n.Mutable(fd).List()
		if fd.Message() != nil {
			e := l.NewElement()
			fillMsg(e.Message())
			l.Append(e)
		} else {
			l.Append(g.scalar(fd))
		}
	case fd.IsMap():
		mp := n.Mutable(fd).Map()
		k := g.scalar(fd.MapKey()).MapKey()
		if fd.MapValue().Message() != nil {
			e := mp.NewValue()
			fillMsg(e.Message())
			mp.Set(k, e)
		} else {
			mp.Set(k, g.scalar(fd.MapValue()))
		}
	case fd.Message() != nil:
		fillMsg(n.Mutable(fd).Message())
	default:
		n.Set(fd, g.scalar(fd))
	}
}

func unknownField(num int, v uint64) []byte {
	b := protowire.AppendTag(nil, protowire.Number(num), protowire.VarintType)
	return protowire.AppendVarint(b, v)
}
func unknownBytesField(num int, s string) []byte {
	b := protowire.AppendTag(nil, protowire.Number(num), protowire.BytesType)
	return protowire.AppendBytes(b, []byte(s))
}

var mutKinds = []string{"presence-flip", "default-vs-unset", "nan", "signed-zero", "inf", "map-entry", "list-element",
	"unknown-field", "nested-float", "nested-timestamp", "nested-duration", "change-time", "scalar-change"}

// mutate applies one mutation of the given kind to y (and for some kinds to x too, so that the
// pair stays equal in an interesting way). It returns false if the messages offer no place for it.
func (g *pairGen) mutate(kind string, x, y proto.Message) (mut, bool) {
	r := g.r
	mu := mut{kind: kind}
	any := func(protoreflect.Message) bool { return true }
	hasFieldOf := func(ok func(protoreflect.FieldDescriptor) bool) func(protoreflect.Message) bool {
		return func(n protoreflect.Message) bool {
			fds := n.Descriptor().Fields()
			for i := 0; i < fds.Len(); i++ {
				if ok(fds.Get(i)) {
					return true
				}
			}
			return false
		}
	}
	notWkt := func(n protoreflect.Message) bool {
		fn := n.Descriptor().FullName()
		return fn != tsName && fn != durName
	}
	switch kind {
	case "presence-flip":
		n := g.pickNode(y, notWkt)
		if n == nil {
			return mu, false
		}
		fd := g.pickField(n, func(protoreflect.FieldDescriptor) bool { return true })
		if fd == nil {
			return mu, false
		}
		if n.Has(fd) {
			n.Clear(fd)
		} else {
			g.setRandom(n, fd)
		}
	case "default-vs-unset":
		// an explicit-presence field set to its zero value (present) against unset; or an
		// implicit-presence one set to zero, which IS unset
		n := g.pickNode(y, notWkt)
		if n == nil {
			return mu, false
		}
		fd := g.pickField(n, func(fd protoreflect.FieldDescriptor) bool { return !fd.IsList() && !fd.IsMap() })
		if fd == nil {
			return mu, false
		}
		if fd.Message() != nil {
			n.Clear(fd)
			n.Mutable(fd) // present and empty
		} else {
			n.Set(fd, fd.Default())
		}
	case "nan", "inf", "signed-zero":
		ok := hasFieldOf(isFloat)
		n := g.pickNode(y, ok)
		if n == nil {
			return mu, false
		}
		fd := g.pickField(n, isFloat)
		var f float64
		switch kind {
		case "nan":
			f = math.NaN()
		case "inf":
			f = math.Inf([]int{1, -1}[r.Intn(2)])
		default:
			f = math.Copysign(0, -1)
		}
		set := func(m protoreflect.Message, f float64) {
			switch {
			case fd.IsList():
				l := m.Mutable(fd).List()
				if l.Len() == 0 || r.Chance(30) {
					l.Append(floatVal(fd, f))
				} else {
					l.Set(l.Len()-1, floatVal(fd, f))
				}
			case fd.IsMap():
				m.Mutable(fd).Map().Set(protoreflect.ValueOfInt32(1).MapKey(), floatVal(fd, f))
			default:
				m.Set(fd, floatVal(fd, f))
			}
		}
		set(n, f)
		// often put a related value at the same place in x: the same special value, the opposite
		// infinity, the positive zero
		if xn := g.sameNode(x, y, n); xn != nil && r.Chance(60) {
			switch kind {
			case "nan":
				set(xn, math.NaN())
			case "inf":
				if r.Chance(70) {
					set(xn, f)
				} else {
					set(xn, -f)
				}
			default:
				set(xn, 0)
			}
		}
	case "map-entry":
		n := g.pickNode(y, hasFieldOf(func(fd protoreflect.FieldDescriptor) bool { return fd.IsMap() }))
		if n == nil {
			return mu, false
		}
		fd := g.pickField(n, func(fd protoreflect.FieldDescriptor) bool { return fd.IsMap() && n.Has(fd) })
		if fd == nil || g.r.Chance(25) {
			fd = g.pickField(n, func(fd protoreflect.FieldDescriptor) bool { return fd.IsMap() })
		}
		mp := n.Mutable(fd).Map()
		var keys []protoreflect.MapKey
		mp.Range(func(k protoreflect.MapKey, _ protoreflect.Value) bool { keys = append(keys, k); return true })
		switch {
		case len(keys) > 0 && r.Chance(35):
			mp.Clear(keys[0]) // iteration order is random; any key will do
		case len(keys) > 0 && r.Chance(50) && fd.MapValue().Message() == nil:
			mp.Set(keys[0], g.scalar(fd.MapValue()))
		default:
			g.setRandom(n, fd)
		}
	case "list-element":
		n := g.pickNode(y, hasFieldOf(func(fd protoreflect.FieldDescriptor) bool { return fd.IsList() }))
		if n == nil {
			return mu, false
		}
		fd := g.pickField(n, func(fd protoreflect.FieldDescriptor) bool { return fd.IsList() && n.Has(fd) })
		if fd == nil || g.r.Chance(25) {
			fd = g.pickField(n, func(fd protoreflect.FieldDescriptor) bool { return fd.IsList() })
		}
		l := n.Mutable(fd).List()
		switch {
		case l.Len() > 0 && r.Chance(30):
			l.Truncate(l.Len() - 1)
		case l.Len() > 1 && r.Chance(40): // swap the ends
			a, b := l.Get(0), l.Get(l.Len()-1)
			if fd.Message() != nil {
				a = protoreflect.ValueOfMessage(proto.Clone(a.Message().Interface()).ProtoReflect())
				b = protoreflect.ValueOfMessage(proto.Clone(b.Message().Interface()).ProtoReflect())
			}
			l.Set(0, b)
			l.Set(l.Len()-1, a)
		case l.Len() > 0 && fd.Message() == nil && r.Chance(50):
			l.Set(r.Intn(l.Len()), g.scalar(fd))
		default:
			g.setRandom(n, fd)
		}
	case "unknown-field":
		n := g.pickNode(y, any)
		if n == nil {
			return mu, false
		}
		a, b := unknownField(1000, uint64(r.Intn(3))), unknownBytesField(1001, []string{"", "a"}[r.Intn(2)])
		xn := g.sameNode(x, y, n)
		switch r.Intn(8) {
		case 0: // only y has one
			n.SetUnknown(append(append([]byte{}, n.GetUnknown()...), a...))
		case 1: // both the same
			n.SetUnknown(append(append([]byte{}, n.GetUnknown()...), a...))
			if xn != nil {
				xn.SetUnknown(append(append([]byte{}, xn.GetUnknown()...), a...))
			}
		case 2: // the same fields, different numbers interleaved differently: equal
			n.SetUnknown(append(append([]byte{}, a...), b...))
			if xn != nil {
				xn.SetUnknown(append(append([]byte{}, b...), a...))
			}
		case 3: // the same number repeated in a different order: not equal
			a2 := unknownField(1000, 7)
			n.SetUnknown(append(append([]byte{}, a...), a2...))
			if xn != nil {
				xn.SetUnknown(append(append([]byte{}, a2...), a...))
			}
		case 4: // same length, different content
			n.SetUnknown(unknownField(1000, 1))
			if xn != nil {
				xn.SetUnknown(unknownField(1000, 2))
			}
		default:
			// one field number occurring 2-3 times, interleaved with another number; the two sides
			// differ in the first / middle / last occurrence (same total length), in length, in the
			// order of the occurrences of one number, or only in how the two numbers interleave (equal)
			k := 2 + r.Intn(2)
			vals := make([]uint64, k)
			for i := range vals {
				vals[i] = uint64(1 + r.Intn(5))
			}
			build := func(vs []uint64, otherAt int) []byte {
				var out []byte
				for i, v := range vs {
					if i == otherAt {
						out = append(out, b...)
					}
					out = append(out, unknownField(1000, v)...)
				}
				if otherAt >= len(vs) {
					out = append(out, b...)
				}
				return out
			}
			at := r.Intn(k + 2) // k+1: no other number at all
			n.SetUnknown(build(vals, at))
			if xn != nil {
				xv := append([]uint64{}, vals...)
				xat := at
				switch r.Intn(6) {
				case 0: // first occurrence differs
					xv[0] += 10
				case 1: // a middle (or the last of two) occurrence differs
					xv[k/2] += 10
				case 2: // last occurrence differs
					xv[k-1] += 10
				case 3: // longer varint: different total length
					xv[r.Intn(k)] += 300
				case 4: // occurrences of the same number reordered
					xv[0], xv[k-1] = xv[k-1], xv[0]
				default: // only the other number moves: equal for proto.Equal
					if at <= k {
						xat = (at + 1 + r.Intn(k)) % (k + 1)
					}
				}
				xn.SetUnknown(build(xv, xat))
			}
		}
	case "nested-float":
		n := g.pickNode(y, hasFieldOf(func(fd protoreflect.FieldDescriptor) bool { return isFloat(fd) && !fd.IsMap() }))
		if n == nil {
			return mu, false
		}
		fd := g.pickField(n, func(fd protoreflect.FieldDescriptor) bool { return isFloat(fd) && !fd.IsMap() })
		d := deltas[r.Intn(len(deltas))]
		if r.Bool() {
			d = -d
		}
		mu.dFloat = math.Abs(d)
		if fd.IsList() {
			l := n.Mutable(fd).List()
			if l.Len() == 0 {
				l.Append(floatVal(fd, 1))
				if xn := g.sameNode(x, y, n); xn != nil {
					xn.Mutable(fd).List().Append(floatVal(fd, 1))
				}
			}
			i := r.Intn(l.Len())
			l.Set(i, floatVal(fd, l.Get(i).Float()+d))
		} else {
			base := n.Get(fd).Float()
			if base == 0 && r.Chance(70) { // make it a difference between two populated values
				base = dyadics[1+r.Intn(len(dyadics)-1)]
				if xn := g.sameNode(x, y, n); xn != nil {
					xn.Set(fd, floatVal(fd, base))
				}
			}
			n.Set(fd, floatVal(fd, base+d))
		}
	case "nested-timestamp", "nested-duration":
		want := protoreflect.FullName(tsName)
		if kind == "nested-duration" {
			want = durName
		}
		n := g.pickNode(y, func(n protoreflect.Message) bool { return n.Descriptor().FullName() == want })
		if n == nil {
			return mu, false
		}
		fs, fn := n.Descriptor().Fields().ByName("seconds"), n.Descriptor().Fields().ByName("nanos")
		ds := []int64{1, 999999999, 1000000000, 1000000001, 5000000000, 250000000}
		d := ds[r.Intn(len(ds))]
		mu.dNanos = d
		tot := n.Get(fs).Int()*1000000000 + n.Get(fn).Int()
		if r.Bool() {
			tot += d
		} else {
			tot -= d
		}
		s, ns := tot/1000000000, tot%1000000000
		if kind == "nested-timestamp" && ns < 0 { // timestamps keep nanos in [0, 1e9)
			s, ns = s-1, ns+1000000000
		}
		if r.Chance(10) { // the same instant written un-normalised
			s, ns = s+1, ns-1000000000
			if ns < math.MinInt32 {
				s, ns = s-1, ns+1000000000
			}
		}
		n.Set(fs, protoreflect.ValueOfInt64(s))
		n.Set(fn, protoreflect.ValueOfInt32(int32(ns)))
	case "change-time":
		n := g.pickNode(y, func(n protoreflect.Message) bool {
			return n.Descriptor().Name() == "Change" && n.Descriptor().Fields().ByName("change_time") != nil
		})
		if n == nil {
			return mu, false
		}
		fd := n.Descriptor().Fields().ByName("change_time")
		switch r.Intn(3) {
		case 0:
			if n.Has(fd) {
				n.Clear(fd)
			} else {
				n.Mutable(fd)
			}
		default:
			t := n.Mutable(fd).Message()
			t.Set(t.Descriptor().Fields().ByName("seconds"), protoreflect.ValueOfInt64(int64(r.Range(0, 5))))
			t.Set(t.Descriptor().Fields().ByName("nanos"), protoreflect.ValueOfInt32(int32(r.Range(0, 3))))
		}
	case "scalar-change":
		n := g.pickNode(y, notWkt)
		if n == nil {
			return mu, false
		}
		fd := g.pickField(n, func(fd protoreflect.FieldDescriptor) bool {
			return fd.Message() == nil && !fd.IsList() && !fd.IsMap() && !isFloat(fd)
		})
		if fd == nil {
			return mu, false
		}
		n.Set(fd, g.scalar(fd))
	}
	return mu, true
}

// sameNode finds in x the node at the position n has in y (x and y are clones of one ancestor, so
// the i-th reachable node corresponds until a structural mutation is applied); nil if absent or of
// another type.
func (g *pairGen) sameNode(x, y proto.Message, n protoreflect.Message) protoreflect.Message {
	var xs, ys []protoreflect.Message
	nodes(x.ProtoReflect(), &xs)
	nodes(y.ProtoReflect(), &ys)
	if len(xs) != len(ys) {
		return nil
	}
	for i, c := range ys {
		if c == n {
			if xs[i].Descriptor() == n.Descriptor() && xs[i].IsValid() {
				return xs[i]
			}
			return nil
		}
	}
	return nil
}

var rootTypes = []proto.Message{
	&testproto.TestAllTypes{},
	&traits.PullBrightnessResponse{},
	&traits.PullEnergyLevelResponse{},
	&traits.ElectricMode{},
}

// ancestor makes a random message with the tolerance kinds well represented.
func (g *pairGen) ancestor(root proto.Message) proto.Message {
	cfg := vmsg.RandCfg{FieldPct: 14, Depth: 2, MaxList: 2}
	if _, ok := root.(*testproto.TestAllTypes); !ok {
		cfg = vmsg.RandCfg{FieldPct: 55, Depth: 5, MaxList: 2}
	}
	m := vmsg.RandMsg(g.r, root, cfg)
	// floats from the dyadic alphabet (vmsg's own alphabet is dyadic too: 0, 1, 2.5, -3)
	if t, ok := m.(*testproto.TestAllTypes); ok {
		if g.r.Chance(60) {
			t.DefaultWellKnown = &testproto.WellKnown{}
			g.wkt(t.DefaultWellKnown)
		}
		if g.r.Chance(40) {
			w := &testproto.WellKnown{}
			g.wkt(w)
			t.RepeatedWellKnown = append(t.RepeatedWellKnown, w)
		}
		if g.r.Chance(30) {
			w := &testproto.WellKnown{}
			g.wkt(w)
			t.MapStringWellKnown = map[string]*testproto.WellKnown{"k": w}
		}
		if g.r.Chance(50) {
			t.DefaultDouble = dyadics[g.r.Intn(len(dyadics))]
		}
		if g.r.Chance(40) {
			t.RepeatedFloat = append(t.RepeatedFloat, float32(dyadics[g.r.Intn(len(dyadics))]))
		}
		if g.r.Chance(30) {
			f := dyadics[g.r.Intn(len(dyadics))]
			t.OptionalDouble = &f
		}
		if g.r.Chance(30) {
			t.MapInt32Double = map[int32]float64{1: dyadics[g.r.Intn(len(dyadics))]}
		}
	}
	return m
}

func (g *pairGen) wkt(w *testproto.WellKnown) {
	m := w.ProtoReflect()
	fds := m.Descriptor().Fields()
	for i := 0; i < fds.Len(); i++ {
		if g.r.Chance(75) {
			t := m.Mutable(fds.Get(i)).Message()
			t.Set(t.Descriptor().Fields().ByName("seconds"), protoreflect.ValueOfInt64(int64(g.r.Range(-2, 20))))
			if g.r.Chance(60) {
				t.Set(t.Descriptor().Fields().ByName("nanos"), protoreflect.ValueOfInt32(int32([]int{1, 500000000, 999999999}[g.r.Intn(3)])))
			}
		}
	}
}
