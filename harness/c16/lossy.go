// Whole collections under an equivalence pulled WITHOUT backpressure by a reader that is behind
// (KCollL of Cmp/C16Judge.v; model: Cmp/CollLossy.v = Excess/MergeExcess.v m_run composed with the
// held-map loop of Resource/Pull.v).
//
// Driving, without sleeps: the driver is the reader, so the reader is behind exactly when the driver
// does not receive.  A phase is
//   - a write to the plug id "pp" (a value no equivalence relates to the previous one): the
//     subscription's loop takes it and parks on its send;
//   - a script of writes over up to three ids -- delete + re-add with an EQUIVALENT / the same / a
//     different value (folded into one REPLACE), update runs, add + delete (dropped), ... -- which pile
//     up in mergeCollectionExcess;
//   - a write to the barrier id "zz"; Bus.Send hands over synchronously and changesAfter forwards
//     one change before it takes the next, so when this write has returned every write of the script
//     is in the merge stage;
//
// then the driver drains up to the barrier's change.  A timeout is only the give-up for a stream
// that stopped.
package main

import (
	"context"
	"fmt"
	"time"

	"github.com/smart-core-os/sc-api/go/types"
	"github.com/smart-core-os/sc-golang/internal/testproto"
	"github.com/smart-core-os/sc-golang/pkg/resource"
	"github.com/smart-core-os/sc-golang/verifharness/vcoq"
	"google.golang.org/protobuf/proto"
	"google.golang.org/protobuf/types/known/timestamppb"
)

const lossyPlug, lossyBarrier = "pp", "zz"

func lossyMark(kind string, k int) proto.Message {
	return &testproto.TestAllTypes{DefaultString: fmt.Sprintf("%s-%d", kind, k), DefaultDouble: 1048576}
}

// collLossy runs init and the phases (scripts; plug and barrier are added here) and emits a KCollL case.
func (g *c16) collLossy(e ecfg, uo bool, thr *float64, init []idv, scripts [][]idv, tags []string) {
	js := map[string]any{"op": "collection without backpressure, reader behind during each phase", "equivalence": e.js(), "updates_only": uo}
	if thr != nil {
		js["include_default_double_at_least"] = *thr
	}
	var ij []any
	for _, p := range init {
		ij = append(ij, map[string]any{"id": p.id, "value": jsMsg(p.v)})
	}
	js["init"] = ij
	opts := []resource.Option{resource.WithMessageEquivalence(e.real())}
	if len(e.vs) == 0 {
		opts = []resource.Option{resource.WithNoDuplicates()}
	}
	c := resource.NewCollection(opts...)
	present := map[string]bool{}
	for _, p := range init {
		if _, err := c.Add(p.id, proto.Clone(p.v)); err != nil {
			g.direct("Collection.Add failed: "+err.Error(), "stream:set-error", js)
			return
		}
		present[p.id] = true
	}
	include := func(m proto.Message) bool {
		if thr == nil {
			return true
		}
		t, ok := m.(*testproto.TestAllTypes)
		return ok && t.DefaultDouble >= *thr
	}
	ropts := []resource.ReadOption{resource.WithBackpressure(false), resource.WithUpdatesOnly(uo)}
	if thr != nil {
		ropts = append(ropts, resource.WithInclude(func(id string, item proto.Message) bool { return include(item) }))
	}
	ctx, cancel := context.WithCancel(context.Background())
	defer cancel()
	ch := c.Pull(ctx, ropts...)
	type tr struct {
		id       string
		kind     types.ChangeType
		old, new proto.Message
	}
	var emitted []tr
	recv := func() (tr, bool) {
		select {
		case ch, ok := <-ch:
			if !ok || ch == nil {
				return tr{}, false
			}
			t := tr{id: ch.Id, kind: ch.ChangeType}
			if ch.OldValue != nil {
				t.old = proto.Clone(ch.OldValue)
			}
			if ch.NewValue != nil {
				t.new = proto.Clone(ch.NewValue)
			}
			emitted = append(emitted, t)
			return t, true
		case <-time.After(20 * time.Second):
			return tr{}, false
		}
	}
	if !uo {
		for _, p := range init {
			if include(p.v) {
				if _, ok := recv(); !ok {
					g.direct("a seed value was not delivered within 20 s", "lossy:stream-stopped", js)
					return
				}
			}
		}
	}
	write := func(p idv) error {
		var err error
		switch {
		case p.v == nil:
			_, err = c.Delete(p.id)
			delete(present, p.id)
		case present[p.id]:
			_, err = c.Update(p.id, proto.Clone(p.v))
		default:
			_, err = c.Add(p.id, proto.Clone(p.v))
			present[p.id] = true
		}
		return err
	}
	var phases [][]idv
	var pj []any
	replaces := 0
	for k, script := range scripts {
		ph := append([]idv{{lossyPlug, lossyMark("plug", k)}}, script...)
		ph = append(ph, idv{lossyBarrier, lossyMark("barrier", k)})
		phases = append(phases, ph)
		var oj []any
		for _, p := range ph {
			if err := write(p); err != nil {
				g.direct("collection write failed: "+err.Error(), "stream:set-error", js)
				return
			}
			if p.v == nil {
				oj = append(oj, map[string]any{"delete": p.id})
			} else {
				oj = append(oj, map[string]any{"put": p.id, "value": jsMsg(p.v)})
			}
		}
		pj = append(pj, oj)
		js["phases"] = pj
		for {
			t, ok := recv()
			if !ok {
				g.direct("the barrier change of a phase was not delivered within 20 s of its write (no backpressure, reader draining)", "lossy:stream-stopped", js)
				return
			}
			if t.kind == types.ChangeType_REPLACE {
				replaces++
			}
			if t.id == lossyBarrier {
				break
			}
		}
	}
	var ej []any
	ec := make([]string, len(emitted))
	kc := make([]int64, len(emitted))
	for i, t := range emitted {
		ec[i] = vcoq.Pair(vcoq.Pair(vcoq.Str(t.id), coqOptMsg(t.old)), coqOptMsg(t.new))
		kc[i] = int64(t.kind) // types.ChangeType: ADD 1, UPDATE 2, REMOVE 3, REPLACE 4
		ej = append(ej, map[string]any{"id": t.id, "type": t.kind.String(), "old": jsMsg(t.old), "new": jsMsg(t.new)})
	}
	js["emitted"] = ej
	ic := make([]string, len(init))
	guard := e.guard()
	for i, p := range init {
		ic[i] = vcoq.Pair(vcoq.Str(p.id), coqMsg(p.v))
		guard = guard && optGuard(p.v)
	}
	pc := make([]string, len(phases))
	nops := 0
	for i, ph := range phases {
		oc := make([]string, len(ph))
		for j, p := range ph {
			oc[j] = vcoq.Pair(vcoq.Str(p.id), coqOptMsg(p.v))
			guard = guard && optGuard(p.v)
		}
		pc[i] = vcoq.List(oc)
		nops += len(ph) - 2
	}
	tc := "None"
	if thr != nil {
		tc = "(Some " + coqQ(*thr) + ")"
		guard = guard && smallDyadic(*thr)
	}
	coq := vcoq.App("KCollL", e.coq(), vcoq.Bool(uo), tc, vcoq.List(ic), vcoq.List(pc), vcoq.List(ec), vcoq.ListZ(kc))
	tags = append(tags, "collection-lossy", "collection-lossy:"+e.tag(), fmt.Sprintf("collection-lossy:updates-only=%v", uo),
		fmt.Sprintf("collection-lossy:include=%v", thr != nil), fmt.Sprintf("collection-lossy:replace-delivered:%d", min(replaces, 3)),
		fmt.Sprintf("collection-lossy:writes-minus-deliveries:%d", min(max(nops-(len(emitted)-2*len(phases)-btoi(!uo)*len(init)), 0), 6)), guardTag(guard))
	g.o.Add(vcoq.Case{Coq: kg(guard, coq), JSON: js, Key: coq, NonTrivial: nops > 1, Tags: tags})
}

func (g *c16) lossyCollections(n int) {
	r := g.r
	item := func(v float64, t int64) proto.Message {
		m := &testproto.TestAllTypes{DefaultDouble: v}
		if t >= 0 {
			m.DefaultWellKnown = &testproto.WellKnown{DefaultTimestamp: &timestamppb.Timestamp{Seconds: t / 1000000000, Nanos: int32(t % 1000000000)}}
		}
		return m
	}
	half := ecfg{vs: []vcfg{{kind: "float", b: 0.5}}}
	one := 1.0
	// fixed histories: a SEEDED item deleted and re-added with the same / an equivalent / a different value behind
	// the reader; the same for an item the subscriber was never sent (updates-only); drift through a REPLACE;
	// leaving and re-entering the include filter inside one burst
	for _, e := range []ecfg{{}, half} {
		g.collLossy(e, false, nil, []idv{{"a", item(1, -1)}, {"b", item(5, -1)}},
			[][]idv{{{"a", nil}, {"a", item(1, -1)}}, {{"b", nil}, {"b", item(5.25, -1)}}, {{"a", nil}, {"a", item(2, -1)}, {"b", item(5.5, -1)}}, {{"b", item(5.75, -1)}}},
			[]string{"collection-lossy:fixed:seeded-delete-readd"})
		g.collLossy(e, true, nil, []idv{{"a", item(1, -1)}},
			[][]idv{{{"a", nil}, {"a", item(1, -1)}}, {{"a", nil}, {"a", item(1.25, -1)}}, {{"a", item(1.5, -1)}, {"a", nil}, {"a", item(1.75, -1)}}},
			[]string{"collection-lossy:fixed:updates-only-delete-readd"})
		g.collLossy(e, false, &one, []idv{{"a", item(1.25, -1)}, {"b", item(0.5, -1)}},
			[][]idv{{{"a", item(0.5, -1)}, {"a", item(1.25, -1)}}, {{"a", nil}, {"a", item(1.5, -1)}, {"b", item(1, -1)}}, {{"b", nil}, {"b", item(1.25, -1)}, {"a", item(0.75, -1)}, {"a", item(1.75, -1)}}},
			[]string{"collection-lossy:fixed:threshold"})
		g.collLossy(e, false, nil, nil,
			[][]idv{{{"a", item(1, -1)}, {"a", nil}}, {{"a", item(1, -1)}, {"a", item(1.25, -1)}}, {{"a", nil}, {"a", item(1.5, -1)}, {"a", nil}}, {{"a", item(1.5, -1)}}},
			[]string{"collection-lossy:fixed:empty-start"})
	}
	ids := []string{"a", "b", "c"}
	for i := 0; i < n; i++ {
		var e ecfg
		switch r.Intn(4) {
		case 0:
		case 1:
			e = ecfg{vs: []vcfg{{kind: "float", b: []float64{0.25, 0.5, 1}[r.Intn(3)]}}}
		case 2:
			e = ecfg{vs: []vcfg{{kind: "float", b: 0.5}, {kind: "time", d: 1000000000}}}
		default:
			e = ecfg{or: true, vs: []vcfg{{kind: "float", b: 0}, {kind: "float", b: 0.5}}}
		}
		uo := r.Chance(20)
		var thr *float64
		if r.Chance(35) {
			t := []float64{0, 1, 1.5, 2}[r.Intn(4)]
			thr = &t
		}
		val := map[string]float64{}
		tim := map[string]int64{}
		present := map[string]bool{}
		var init []idv
		for _, id := range ids[:r.Intn(4)] {
			val[id], tim[id] = dyadics[r.Intn(len(dyadics))], -1
			if r.Chance(30) {
				tim[id] = int64(r.Range(0, 3)) * 1000000000
			}
			present[id] = true
			init = append(init, idv{id, item(val[id], tim[id])})
		}
		var scripts [][]idv
		for p, np := 0, r.Range(1, 4); p < np; p++ {
			var ops []idv
			put := func(id string) { ops = append(ops, idv{id, item(val[id], tim[id])}); present[id] = true }
			for k, nk := 0, r.Range(1, 5); k < nk; k++ {
				id := ids[r.Intn(len(ids))]
				switch {
				case present[id] && r.Chance(45): // delete and (mostly) re-add at once: a REPLACE
					ops = append(ops, idv{id, nil})
					present[id] = false
					if r.Chance(80) {
						switch r.Intn(4) {
						case 0: // the same value
						case 1, 2: // near it
							val[id] += []float64{0.25, 0.125, -0.25, 0.5}[r.Intn(4)]
						default:
							val[id] = dyadics[r.Intn(len(dyadics))]
						}
						put(id)
					}
				case !present[id]:
					if _, known := val[id]; !known || r.Chance(50) {
						val[id], tim[id] = dyadics[r.Intn(len(dyadics))], -1
					}
					put(id)
				default:
					switch r.Intn(6) {
					case 0:
					case 1, 2, 3:
						val[id] += []float64{0.25, 0.125, -0.25, 0.5}[r.Intn(4)]
					case 4:
						if tim[id] >= 0 {
							tim[id] += []int64{250000000, 500000000, 1000000000}[r.Intn(3)]
						} else {
							val[id] += 0.25
						}
					default:
						val[id] = dyadics[r.Intn(len(dyadics))]
					}
					put(id)
				}
			}
			scripts = append(scripts, ops)
		}
		g.collLossy(e, uo, thr, init, scripts, nil)
	}
}
