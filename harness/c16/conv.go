package main

import (
	"encoding/hex"
	"math"
	"math/big"
	"sort"
	"strings"

	"github.com/smart-core-os/sc-golang/verifharness/vcoq"
	"google.golang.org/protobuf/encoding/prototext"
	"google.golang.org/protobuf/encoding/protowire"
	"google.golang.org/protobuf/proto"
	"google.golang.org/protobuf/reflect/protoreflect"
)

// Conversion of a proto.Message into the self-describing tree of coq/theories/Cmp/Cmp.v:
// CM <full name> <IsValid> [populated fields by number, keyed by name] [unknown fields (number, hex)].

func coqQ(f float64) string {
	r := new(big.Rat).SetFloat64(f) // exact; nil for NaN/Inf (handled by the caller)
	n := r.Num().String()
	if r.Num().Sign() < 0 {
		n = "(" + n + ")"
	}
	return "(Qmake " + n + " " + r.Denom().String() + "%positive)"
}

func coqFl(f float64) string {
	switch {
	case math.IsNaN(f):
		return "FNaN"
	case math.IsInf(f, 1):
		return "(FInf false)"
	case math.IsInf(f, -1):
		return "(FInf true)"
	}
	return "(FFin " + coqQ(f) + ")"
}

func coqScalar(fd protoreflect.FieldDescriptor, v protoreflect.Value) string {
	switch fd.Kind() {
	case protoreflect.BoolKind:
		return "(CBool " + vcoq.Bool(v.Bool()) + ")"
	case protoreflect.Int32Kind, protoreflect.Sint32Kind, protoreflect.Sfixed32Kind,
		protoreflect.Int64Kind, protoreflect.Sint64Kind, protoreflect.Sfixed64Kind:
		return "(CInt " + vcoq.Z(v.Int()) + ")"
	case protoreflect.Uint32Kind, protoreflect.Fixed32Kind, protoreflect.Uint64Kind, protoreflect.Fixed64Kind:
		return "(CUint " + new(big.Int).SetUint64(v.Uint()).String() + ")"
	case protoreflect.FloatKind:
		return "(CF32 " + coqFl(v.Float()) + ")"
	case protoreflect.DoubleKind:
		return "(CF64 " + coqFl(v.Float()) + ")"
	case protoreflect.StringKind:
		return "(CStr " + vcoq.Str(v.String()) + ")"
	case protoreflect.BytesKind:
		return "(CBytes " + vcoq.Str(hex.EncodeToString(v.Bytes())) + ")"
	case protoreflect.EnumKind:
		return "(CEnum " + vcoq.Z(int64(v.Enum())) + ")"
	}
	panic("c16: unsupported kind " + fd.Kind().String())
}

func coqSingular(fd protoreflect.FieldDescriptor, v protoreflect.Value) string {
	if fd.Kind() == protoreflect.MessageKind || fd.Kind() == protoreflect.GroupKind {
		return coqMessage(v.Message())
	}
	return "(CS " + coqScalar(fd, v) + ")"
}

func keyLess(a, b protoreflect.MapKey) bool {
	switch a.Interface().(type) {
	case bool:
		return !a.Bool() && b.Bool()
	case int32, int64:
		return a.Int() < b.Int()
	case uint32, uint64:
		return a.Uint() < b.Uint()
	}
	return a.String() < b.String()
}

func coqUnknown(raw protoreflect.RawFields) string {
	var items []string
	b := []byte(raw)
	for len(b) > 0 {
		num, _, n := protowire.ConsumeField(b)
		if n < 0 {
			panic("c16: malformed unknown fields")
		}
		items = append(items, vcoq.Pair(vcoq.Z(int64(num)), vcoq.Str(hex.EncodeToString(b[:n]))))
		b = b[n:]
	}
	return vcoq.List(items)
}

func coqMessage(m protoreflect.Message) string {
	type ent struct {
		num int
		s   string
	}
	var ents []ent
	m.Range(func(fd protoreflect.FieldDescriptor, v protoreflect.Value) bool {
		var s string
		switch {
		case fd.IsList():
			l := v.List()
			it := make([]string, l.Len())
			for i := range it {
				it[i] = coqSingular(fd, l.Get(i))
			}
			s = "(CL " + vcoq.List(it) + ")"
		case fd.IsMap():
			mp := v.Map()
			type kv struct {
				k protoreflect.MapKey
				v protoreflect.Value
			}
			var kvs []kv
			mp.Range(func(k protoreflect.MapKey, v protoreflect.Value) bool {
				kvs = append(kvs, kv{k, v})
				return true
			})
			sort.Slice(kvs, func(i, j int) bool { return keyLess(kvs[i].k, kvs[j].k) })
			it := make([]string, len(kvs))
			for i, e := range kvs {
				it[i] = vcoq.Pair(coqScalar(fd.MapKey(), e.k.Value()), coqSingular(fd.MapValue(), e.v))
			}
			s = "(CMap " + vcoq.List(it) + ")"
		default:
			s = coqSingular(fd, v)
		}
		ents = append(ents, ent{int(fd.Number()), vcoq.Pair(vcoq.Str(string(fd.Name())), s)})
		return true
	})
	sort.Slice(ents, func(i, j int) bool { return ents[i].num < ents[j].num })
	it := make([]string, len(ents))
	for i, e := range ents {
		it[i] = e.s
	}
	return vcoq.App("CM", vcoq.Str(string(m.Descriptor().FullName())), vcoq.Bool(m.IsValid()), vcoq.List(it), coqUnknown(m.GetUnknown()))
}

func coqMsg(m proto.Message) string { return coqMessage(m.ProtoReflect()) }

// coqOpt prints a possibly-nil interface value.
func coqOpt(m proto.Message) string {
	if m == nil {
		return "None"
	}
	return vcoq.Some(coqMsg(m))
}

// jsMsg is the replay form: type, validity, text format (numbered unknown fields included).
func jsMsg(m proto.Message) any {
	if m == nil {
		return nil
	}
	r := m.ProtoReflect()
	if !r.IsValid() {
		return map[string]any{"type": string(r.Descriptor().FullName()), "typed_nil": true}
	}
	txt, _ := prototext.MarshalOptions{Multiline: false, EmitUnknown: true}.Marshal(m)
	s := string(txt)
	for strings.Contains(s, "  ") {
		s = strings.ReplaceAll(s, "  ", " ")
	}
	wire, _ := proto.MarshalOptions{Deterministic: true}.Marshal(m)
	return map[string]any{"type": string(r.Descriptor().FullName()), "text": s, "wire": hex.EncodeToString(wire)}
}
