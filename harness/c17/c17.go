// Correspondence generator for C17 (pkg/group): runs the real group.Execute* functions with
// members gated by channels that are released one at a time in a chosen completion order.
//
// After every release the driver waits until the process is quiescent (every goroutine that has a
// pkg/group or harness frame is blocked, read from a stop-the-world runtime.Stack dump), then
// records whether the call has returned and whether the members' context is cancelled.  Because
// exactly one member is released per step and the driver waits for quiescence in between, the
// order in which responses reach the receiving loop is the chosen order, so a run is a
// deterministic function of (api, members, order).
//
// Runs happen in worker subprocesses (batches) so that goroutines leaked by the code under test
// (blocked senders can never be freed) neither accumulate nor slow the stack dumps down.
package main

import (
	"bufio"
	"bytes"
	"context"
	"encoding/json"
	"errors"
	"fmt"
	"os"
	"os/exec"
	"runtime"
	"sort"
	"strconv"
	"strings"
	"sync"
	"sync/atomic"
	"time"

	"github.com/smart-core-os/sc-golang/pkg/group"
	"github.com/smart-core-os/sc-golang/verifharness/vcoq"
	"github.com/smart-core-os/sc-golang/verifharness/vh"
	"google.golang.org/protobuf/proto"
	"google.golang.org/protobuf/types/known/wrapperspb"
)

func init() { vh.Register("C17", genC17) }

func main() {
	if len(os.Args) > 1 && os.Args[1] == "c17-worker" {
		worker()
		return
	}
	vh.Main()
}

// ---- one run ----

const (
	outOk      = 0
	outFail    = 1
	outFailMsg = 2
)

// Spec is the input of one run.
type Spec struct {
	API   string `json:"api"` // execute | upto | one | fast | race
	Arg   int    `json:"arg"` // strategy number (execute) or allowed errors (upto)
	Outs  []int  `json:"outs"`
	Aware []bool `json:"aware"`
	Order []int  `json:"order"`
	// parent-cancellation runs (generator C17P): Events replaces Order when non-nil; an entry >= 0
	// releases that member, -1 cancels the parent context.  Pre: the parent context is already
	// cancelled when the call is made.  In these runs a cancellation-aware member that saw its
	// context cancelled waits for a second gate, which the driver opens in index order, so that the
	// order in which simultaneously cancelled members return is fixed.
	Events []int `json:"events,omitempty"`
	Pre    bool  `json:"pre,omitempty"`
	// scripted responses (cases KSeq): member i returns (message code, error code) Script[i]:
	// message 0 = nil, error 0 = nil, error 500/501 = one of two error values shared by members,
	// error 600+i+1 = isErr{i} (errors.Is-equal to every other isErr), error i+1 = memberErr{i}; any other message code = an Int64Value holding it.
	Script [][2]int64 `json:"script,omitempty"`
}

// isErr: equal-but-distinct errors — every *isErr matches every other under errors.Is, like two
// gRPC status errors with the same code and text coming from two members.
type isErr struct{ i int }

func (e *isErr) Error() string        { return "unavailable" }
func (e *isErr) Is(target error) bool { _, ok := target.(*isErr); return ok }

var (
	sharedErrA = errors.New("shared failure A")
	sharedErrB = errors.New("shared failure B")
)

// Obs is what was observed, canonicalised to small integers.
type Obs struct {
	Kind    string  `json:"kind"` // slice | single | panic | hang
	Res     []int64 `json:"res,omitempty"`
	Msg     int64   `json:"msg"`
	Idx     int64   `json:"idx"`
	Err     int64   `json:"err"`
	Calls   []int64 `json:"calls"`
	Cancel  int64   `json:"cancel"`
	RetStep int64   `json:"retstep"`
	Saw     []int64 `json:"saw"`
	Leak    int64   `json:"leak"`
	Panic   string  `json:"panic,omitempty"`
	Stacks  string  `json:"stacks,omitempty"`
	// a member was handed a context with a deadline although the caller's context has none
	Deadline bool `json:"deadline,omitempty"`
	// the slice returned by the previous call of this worker changed during this call
	Aliased bool `json:"aliased,omitempty"`
}

type memberErr struct{ i int }

func (e *memberErr) Error() string { return "member " + strconv.Itoa(e.i) + " failed" }

type cancelErr struct {
	i     int
	cause error
}

func (e *cancelErr) Error() string { return "member " + strconv.Itoa(e.i) + ": " + e.cause.Error() }
func (e *cancelErr) Unwrap() error { return e.cause }

// canonErr maps the error a group call returned to its canonical number.  The group functions
// hand the members' errors back as they are, so the dynamic type must be exactly the member's:
// a wrapped or joined error is none of them (-1, like the "no members" error).
func canonErr(err error) int64 {
	if err == nil {
		return 0
	}
	switch e := err.(type) {
	case *memberErr:
		return int64(e.i) + 1
	case *cancelErr:
		return 1000 + int64(e.i) + 1
	case *isErr:
		return 600 + int64(e.i) + 1
	}
	switch err {
	case sharedErrA:
		return 500
	case sharedErrB:
		return 501
	}
	return -1 // errors.New("no members returned a response"), or anything that is not a member's error
}
func canonMsg(m proto.Message) int64 {
	if m == nil {
		return 0
	}
	if v, ok := m.(*wrapperspb.Int64Value); ok {
		if v == nil {
			return 0
		}
		return v.Value
	}
	return 9999
}

type gor struct {
	id     string
	status string
	group  bool // has a pkg/group frame
}

// snapshot parses a stop-the-world dump of all goroutines and keeps those that belong to the
// code under test or to the harness (other than the calling goroutine).
var dumpBuf = make([]byte, 1<<17)

func snapshot() []gor {
	buf := dumpBuf
	for {
		n := runtime.Stack(buf, true)
		if n < len(buf) {
			buf = buf[:n]
			break
		}
		buf = make([]byte, 2*len(buf))
		dumpBuf = buf
	}
	var out []gor
	for k, blk := range bytes.Split(buf, []byte("\n\n")) {
		if k == 0 {
			continue // the calling goroutine
		}
		s := string(blk)
		if !strings.HasPrefix(s, "goroutine ") {
			continue
		}
		isGroup := strings.Contains(s, "sc-golang/pkg/group.")
		if !isGroup && !strings.Contains(s, "\nmain.") {
			continue
		}
		hdr := s[:strings.IndexByte(s+"\n", '\n')]
		f := strings.SplitN(hdr, " ", 3)
		st := ""
		if len(f) == 3 {
			st = strings.Trim(f[2], "[]:")
		}
		// A goroutine whose allocation starts a garbage-collection cycle parks on a runtime-internal
		// semaphore (gcStart waits for worldsema, which this very stack dump holds while the world is
		// stopped): it shows as "semacquire" with no sync frame on top and continues on its own as
		// soon as the dump is over.  Only semaphores of package sync (WaitGroup.Wait) are waits on
		// other goroutines.  (Seen once in ~50 000 runs under load: ExecuteOne judged parked one
		// step too early, return step observed one step late.)
		if strings.HasPrefix(st, "semacquire") && !strings.Contains(s, "sync.runtime_Semacquire") {
			st = "runtime-" + st
		}
		out = append(out, gor{id: f[1], status: st, group: isGroup})
	}
	return out
}

func gorsKey(gs []gor) string {
	var b strings.Builder
	for _, g := range gs {
		b.WriteString(g.id)
		b.WriteByte(':')
		b.WriteString(g.status)
		b.WriteByte(';')
	}
	return b.String()
}

// busy: anything but a goroutine parked on a channel, select or sync primitive.  A white-list,
// because the runtime also reports goroutines as waiting while they help the garbage collector
// ("GC assist marking", "GC assist wait", ...), and those continue on their own.
func busy(g gor) bool {
	for _, p := range []string{"chan receive", "chan send", "select", "semacquire", "sync.", "sleep"} {
		if strings.HasPrefix(g.status, p) {
			return false
		}
	}
	return true
}

// quiesce waits until no relevant goroutine can run and returns that snapshot: two consecutive
// stop-the-world dumps, with a yield in between, in which every relevant goroutine is parked on a
// channel / select / sync primitive and which show the same goroutines in the same states.
func quiesce() ([]gor, bool) {
	deadline := time.Now().Add(5 * time.Second)
	prev := ""
	for k := 0; ; k++ {
		gs := snapshot()
		ok := true
		for _, g := range gs {
			if busy(g) {
				ok = false
				break
			}
		}
		if ok {
			key := "q" + gorsKey(gs)
			if key == prev {
				return gs, true
			}
			prev = key
		} else {
			prev = ""
		}
		if time.Now().After(deadline) {
			return gs, false
		}
		if k < 50 {
			runtime.Gosched()
		} else {
			time.Sleep(20 * time.Microsecond)
		}
	}
}

type callResult struct {
	kind  string
	res   []proto.Message
	msg   proto.Message
	idx   int
	err   error
	panic string
}

func runOne(sp Spec) (Obs, []proto.Message) {
	n := len(sp.Outs)
	parent, cancelParent := context.WithCancel(context.Background())
	defer cancelParent()

	pre := map[string]bool{} // goroutines left over by earlier runs of this process
	for _, g := range snapshot() {
		pre[g.id] = true
	}

	pc := sp.Events != nil || sp.Pre
	events := sp.Events
	if events == nil {
		events = sp.Order
	}
	if sp.Pre {
		cancelParent()
	}
	cgates := make([]chan struct{}, n)
	crel := make([]bool, n)
	gopen := make([]bool, n)
	gates := make([]chan struct{}, n)
	ctxs := make([]atomic.Value, n)
	saw := make([]int64, n)
	var step atomic.Int64
	var deadline atomic.Bool
	var mu sync.Mutex
	var calls []int64
	for i := range gates {
		gates[i] = make(chan struct{})
		cgates[i] = make(chan struct{})
		saw[i] = -1
	}
	members := make([]group.Member, n)
	for i := 0; i < n; i++ {
		i := i
		members[i] = func(ctx context.Context) (proto.Message, error) {
			mu.Lock()
			calls = append(calls, int64(i))
			mu.Unlock()
			ctxs[i].Store(ctx)
			if _, has := ctx.Deadline(); has {
				deadline.Store(true)
			}
			if sp.Aware[i] {
				cancelled := false
				select {
				case <-ctx.Done():
					cancelled = true
				default:
					select {
					case <-ctx.Done():
						cancelled = true
					case <-gates[i]:
					}
				}
				if cancelled {
					mu.Lock()
					saw[i] = step.Load()
					mu.Unlock()
					if pc {
						<-cgates[i]
					}
					return nil, &cancelErr{i, ctx.Err()}
				}
			} else {
				<-gates[i]
			}
			if sp.Script != nil {
				var m proto.Message
				if c := sp.Script[i][0]; c != 0 {
					m = wrapperspb.Int64(c)
				}
				switch c := sp.Script[i][1]; c {
				case 0:
					return m, nil
				case 500:
					return m, sharedErrA
				case 501:
					return m, sharedErrB
				case 600 + int64(i) + 1:
					return m, &isErr{i}
				default:
					return m, &memberErr{i}
				}
			}
			switch sp.Outs[i] {
			case outOk:
				return wrapperspb.Int64(int64(i) + 1), nil
			case outFailMsg:
				return wrapperspb.Int64(-(int64(i) + 1)), &memberErr{i}
			default:
				return nil, &memberErr{i}
			}
		}
	}

	done := make(chan callResult, 1)
	go func() {
		var r callResult
		defer func() {
			if p := recover(); p != nil {
				r = callResult{kind: "panic", panic: fmt.Sprint(p)}
			}
			done <- r
		}()
		switch sp.API {
		case "execute":
			res, err := group.Execute(parent, group.ExecutionStrategy(sp.Arg), members)
			r = callResult{kind: "slice", res: res, err: err}
		case "upto":
			res, err := group.ExecuteUpTo(parent, sp.Arg, members)
			r = callResult{kind: "slice", res: res, err: err}
		case "one":
			m, i, err := group.ExecuteOne(parent, members)
			r = callResult{kind: "single", msg: m, idx: i, err: err}
		case "fast":
			m, i, err := group.ExecuteFast(parent, members)
			r = callResult{kind: "single", msg: m, idx: i, err: err}
		case "race":
			m, i, err := group.ExecuteRace(parent, members)
			r = callResult{kind: "single", msg: m, idx: i, err: err}
		}
	}()

	ob := Obs{Kind: "hang", Cancel: -1, RetStep: -1}
	var result *callResult
	observe := func(s int64) {
		if result == nil {
			select {
			case r := <-done:
				result = &r
				ob.RetStep = s
			default:
			}
		}
		if ob.Cancel < 0 {
			for i := range ctxs {
				if c, ok := ctxs[i].Load().(context.Context); ok && c.Err() != nil {
					ob.Cancel = s
					break
				}
			}
		}
	}
	stuck := false
	// let the members that saw their context cancelled return, lowest index first
	flushCancelled := func() {
		if !pc {
			return
		}
		for {
			j := -1
			mu.Lock()
			for i := range saw {
				if saw[i] >= 0 && !crel[i] {
					j = i
					break
				}
			}
			mu.Unlock()
			if j < 0 {
				return
			}
			crel[j] = true
			close(cgates[j])
			if _, ok := quiesce(); !ok {
				stuck = true
			}
		}
	}
	if _, ok := quiesce(); !ok {
		stuck = true
	}
	flushCancelled()
	observe(0)
	for k, e := range events {
		step.Store(int64(k) + 1)
		if e < 0 {
			cancelParent()
		} else if !gopen[e] {
			gopen[e] = true
			close(gates[e])
		}
		if _, ok := quiesce(); !ok {
			stuck = true
		}
		flushCancelled()
		observe(int64(k) + 1)
	}
	// every member has been allowed to return: what is still alive?
	leak := func() (int64, string) {
		gs, _ := quiesce()
		var c int64
		var desc []string
		for _, g := range gs {
			if g.group && !pre[g.id] {
				c++
				desc = append(desc, g.status)
			}
		}
		sort.Strings(desc)
		return c, strings.Join(desc, ",")
	}
	l, desc := leak()
	for k := 0; k < 3 && l > 0; k++ { // settle: give stragglers a moment before calling it a leak
		time.Sleep(200 * time.Microsecond)
		l, desc = leak()
	}
	observe(int64(len(events)))
	if result != nil {
		ob.Kind = result.kind
		switch result.kind {
		case "slice":
			ob.Res = make([]int64, len(result.res))
			for i, m := range result.res {
				ob.Res[i] = canonMsg(m)
			}
			ob.Err = canonErr(result.err)
		case "single":
			ob.Msg, ob.Idx, ob.Err = canonMsg(result.msg), int64(result.idx), canonErr(result.err)
		case "panic":
			ob.Panic = result.panic
		}
	} else {
		// the call is still running although every member returned; it is not a leaked helper
		l = 0
		for _, g := range snapshot() {
			if g.group && !pre[g.id] {
				l++
			}
		}
		if l > 0 {
			l-- // the caller itself
		}
	}
	ob.Leak = l
	if l > 0 {
		ob.Stacks = desc
	}
	if stuck {
		ob.Stacks += " (quiescence wait timed out)"
	}
	mu.Lock()
	ob.Calls = append([]int64(nil), calls...)
	ob.Saw = append([]int64{}, saw...)
	mu.Unlock()
	if sp.API != "one" && !(sp.API == "execute" && sp.Arg == int(group.ExecutionStrategyOne)) {
		sort.Slice(ob.Calls, func(a, b int) bool { return ob.Calls[a] < ob.Calls[b] })
	}
	if ob.Calls == nil {
		ob.Calls = []int64{}
	}
	ob.Deadline = deadline.Load()
	var raw []proto.Message
	if result != nil && result.kind == "slice" {
		raw = result.res
	}
	return ob, raw
}

// extraDirects: violations visible without the model, beyond panic / hang / leak.
func extraDirects(ob Obs, js map[string]any) []vcoq.Direct {
	var ds []vcoq.Direct
	if ob.Deadline {
		ds = append(ds, vcoq.Direct{What: "a member was given a context with a deadline although the caller's context has none: its context can be cancelled before the outcome is decided", Class: "member-deadline", Replay: js})
	}
	if ob.Aliased {
		ds = append(ds, vcoq.Direct{What: "the result slice returned by the previous group call was modified by this call (results of different calls share storage)", Class: "result-aliased", Replay: js})
	}
	return ds
}

// ---- worker subprocess: specs on stdin (one JSON array), observations on stdout ----

func worker() {
	var specs []Spec
	if err := json.NewDecoder(bufio.NewReader(os.Stdin)).Decode(&specs); err != nil {
		fmt.Fprintln(os.Stderr, "c17 worker:", err)
		os.Exit(2)
	}
	// one observation per line, written as soon as the run is over: if a goroutine of the code under
	// test panics (nothing can recover that, the process dies) the parent knows from the number of
	// lines which run it was
	enc := json.NewEncoder(os.Stdout)
	var prev []proto.Message // the slice the previous call returned, and what it held then
	var prevSnap []int64
	for _, sp := range specs {
		ob, raw := runOne(sp)
		for j := range prev {
			if canonMsg(prev[j]) != prevSnap[j] {
				ob.Aliased = true
			}
		}
		prev = raw
		prevSnap = make([]int64, len(raw))
		for j := range raw {
			prevSnap[j] = canonMsg(raw[j])
		}
		enc.Encode(ob)
	}
}

func runBatches(specs []Spec, batch, par int) ([]Obs, error) {
	exe, err := os.Executable()
	if err != nil {
		return nil, err
	}
	obs := make([]Obs, len(specs))
	type job struct{ lo, hi int }
	jobs := make(chan job)
	errs := make(chan error, len(specs)/batch+par+1) // room for every batch: a crashing tree must not block the workers
	var wg sync.WaitGroup
	for w := 0; w < par; w++ {
		wg.Add(1)
		go func() {
			defer wg.Done()
			for j := range jobs {
				crashes := 0
				for lo := j.lo; lo < j.hi; {
					in, _ := json.Marshal(specs[lo:j.hi])
					ctx, cancel := context.WithTimeout(context.Background(), 10*time.Minute)
					cmd := exec.CommandContext(ctx, exe, "c17-worker")
					cmd.Stdin = bytes.NewReader(in)
					var stderr bytes.Buffer
					cmd.Stderr = &stderr
					o, err := cmd.Output()
					cancel()
					var got []Obs
					for dec := json.NewDecoder(bytes.NewReader(o)); len(got) < j.hi-lo; {
						var ob Obs
						if dec.Decode(&ob) != nil {
							break
						}
						got = append(got, ob)
					}
					copy(obs[lo:j.hi], got)
					k := lo + len(got)
					if err == nil && k == j.hi {
						break
					}
					// The worker died.  A panic in a goroutine of the code under test (it cannot be recovered
					// from outside) is an observation of the run that was in progress: record it and carry on
					// with the rest of the batch.  Anything else is a harness error.
					es := stderr.String()
					if err != nil && k < j.hi && crashes < 20 && strings.Contains(es, "panic: ") && strings.Contains(es, "sc-golang/pkg/group.") {
						crashes++
						var lines []string
						for _, l := range strings.Split(es, "\n") {
							if l = strings.TrimSpace(l); l != "" && len(lines) < 6 {
								lines = append(lines, l)
							}
						}
						obs[k] = Obs{Kind: "panic", Cancel: -1, RetStep: -1, Calls: []int64{}, Saw: []int64{},
							Panic: "in a goroutine of pkg/group (the worker process died): " + strings.Join(lines, " | ")}
						lo = k + 1
						continue
					}
					errs <- fmt.Errorf("worker for cases %d-%d: %v (output for %d runs): %.2000s", lo, j.hi, err, len(got), es)
					break
				}
			}
		}()
	}
	for lo := 0; lo < len(specs); lo += batch {
		hi := lo + batch
		if hi > len(specs) {
			hi = len(specs)
		}
		jobs <- job{lo, hi}
	}
	close(jobs)
	wg.Wait()
	select {
	case e := <-errs:
		return nil, e
	default:
	}
	return obs, nil
}

// ---- Coq terms ----

func coqAPI(sp Spec) string {
	switch sp.API {
	case "execute":
		return vcoq.App("AExecute", vcoq.Int(sp.Arg))
	case "upto":
		return vcoq.App("AUpTo", vcoq.Int(sp.Arg))
	case "one":
		return "AOne"
	case "fast":
		return "AFast"
	}
	return "ARace"
}
func coqMembers(sp Spec) string {
	it := make([]string, len(sp.Outs))
	for i, o := range sp.Outs {
		it[i] = vcoq.App("mkM", []string{"Ok", "Fail", "FailMsg"}[o], vcoq.Bool(sp.Aware[i]))
	}
	return vcoq.List(it)
}
func coqOrder(sp Spec) string {
	it := make([]string, len(sp.Order))
	for i, o := range sp.Order {
		it[i] = vcoq.Nat(o)
	}
	return vcoq.List(it)
}
func coqObs(o Obs) string {
	return vcoq.App("mkRes", coqRet(o), vcoq.ListZ(o.Calls), vcoq.Z(o.Cancel), vcoq.Z(o.RetStep), vcoq.ListZ(o.Saw), vcoq.Z(o.Leak))
}
func coqRet(o Obs) string {
	ret := "RHang"
	switch o.Kind {
	case "slice":
		ret = vcoq.App("RSlice", vcoq.ListZ(o.Res), vcoq.Z(o.Err))
	case "single":
		ret = vcoq.App("RSingle", vcoq.Z(o.Msg), vcoq.Z(o.Idx), vcoq.Z(o.Err))
	case "panic":
		ret = "RPanic"
	}
	return ret
}

// ---- generation ----

func permutations(n int) [][]int {
	if n == 0 {
		return [][]int{{}}
	}
	var out [][]int
	var rec func(cur []int, used []bool)
	rec = func(cur []int, used []bool) {
		if len(cur) == n {
			out = append(out, append([]int(nil), cur...))
			return
		}
		for i := 0; i < n; i++ {
			if !used[i] {
				used[i] = true
				rec(append(cur, i), used)
				used[i] = false
			}
		}
	}
	rec(nil, make([]bool, n))
	return out
}

type apiSel struct {
	api string
	arg int
}

func genC17(o *vcoq.Out, r *vcoq.Rand, tier string) error {
	o.Header = "From SC Require Import Base.Prelude Group.Exec Group.C17Judge."
	o.CaseType = "c17case"
	o.Judge = "judge"
	o.Shard = 500
	o.Rule = "exhaustive: member counts 0-4 x every success/failure assignment x every completion order x Execute with strategies 0-7 (Unspecified, All, Most, Any, One, Fast, Race, out-of-range) with members that ignore their context, and the same space with cancellation-aware members for the parallel strategies; plus ExecuteOne/Fast/Race called directly and ExecuteUpTo with budgets -1..n+1 over the same space subsampled. n = 5 with context-ignoring members, all outcome assignments x all orders, one strategy drawn per case (thorough: strategies 1-6 each). random: 5-8 members (thorough: more of them), outcomes success / failure / failure carrying a message, random awareness, random order, random API. Members are gated by channels released one per step; the driver waits for quiescence (stop-the-world stack dump) between steps. Non-trivial: at least 2 members and at least one failure or a parallel early-return strategy. Distinct by the full (api, members, order) input."
	var specs []Spec
	add := func(a apiSel, outs []int, aware []bool, order []int) {
		specs = append(specs, Spec{API: a.api, Arg: a.arg, Outs: append([]int{}, outs...),
			Aware: append([]bool{}, aware...), Order: append([]int{}, order...)})
	}
	maxN := 4
	for n := 0; n <= maxN; n++ {
		perms := permutations(n)
		for mask := 0; mask < 1<<n; mask++ {
			outs := make([]int, n)
			plain := make([]bool, n)
			awareAll := make([]bool, n)
			for i := 0; i < n; i++ {
				if mask>>i&1 == 1 {
					outs[i] = outFail
				}
				awareAll[i] = true
			}
			for _, p := range perms {
				for s := 0; s <= 7; s++ {
					add(apiSel{"execute", s}, outs, plain, p)
				}
				if n <= 3 { // out-of-range strategy values, deterministically
					add(apiSel{"execute", -1}, outs, plain, p)
					add(apiSel{"execute", 8}, outs, plain, p)
				}
				if n <= 2 { // ExecuteUpTo with every budget around the range
					for b := -1; b <= n+1; b++ {
						add(apiSel{"upto", b}, outs, plain, p)
						add(apiSel{"upto", b}, outs, awareAll, p)
					}
				}
				// cancellation-aware members: every parallel strategy once more
				for _, s := range []int{1, 2, 3, 5, 6} {
					add(apiSel{"execute", s}, outs, awareAll, p)
				}
				// direct entry points, budgets around the interesting range; mixed awareness
				mixed := make([]bool, n)
				for i := range mixed {
					mixed[i] = r.Bool()
				}
				switch r.Intn(4) {
				case 0:
					add(apiSel{"one", 0}, outs, mixed, p)
				case 1:
					add(apiSel{"fast", 0}, outs, mixed, p)
				case 2:
					add(apiSel{"race", 0}, outs, mixed, p)
				default:
					add(apiSel{"upto", r.Range(-1, n+1)}, outs, mixed, p)
				}
			}
		}
	}
	nrand := 1500
	if tier == "thorough" {
		nrand = 20000
	}
	{
		// n = 5, every outcome assignment x every order, context-ignoring members:
		// one strategy drawn per case (quick), every strategy 1..6 (thorough)
		perms := permutations(5)
		for mask := 0; mask < 1<<5; mask++ {
			outs := make([]int, 5)
			for i := range outs {
				if mask>>i&1 == 1 {
					outs[i] = outFail
				}
			}
			for _, p := range perms {
				if tier == "thorough" {
					for st := 1; st <= 6; st++ {
						add(apiSel{"execute", st}, outs, make([]bool, 5), p)
					}
				} else {
					add(apiSel{"execute", 1 + r.Intn(6)}, outs, make([]bool, 5), p)
				}
			}
		}
	}
	// large groups: an early-returning caller leaves n-1 responses behind (a bounded buffer shows here)
	for _, n := range []int{12, 20, 33} {
		for _, a := range []apiSel{{"race", 0}, {"fast", 0}, {"execute", 5}, {"execute", 6}, {"execute", 2}} {
			outs := make([]int, n)
			order := make([]int, n)
			for i := range order {
				order[i] = i
				if a.arg == 2 && r.Chance(50) {
					outs[i] = outFail
				}
			}
			for i := n - 1; i > 0; i-- {
				j := r.Intn(i + 1)
				order[i], order[j] = order[j], order[i]
			}
			add(a, outs, make([]bool, n), order)
		}
	}
	for k := 0; k < nrand; k++ {
		n := r.Range(5, 8)
		if r.Chance(15) {
			n = r.Range(0, 4)
		}
		outs := make([]int, n)
		aware := make([]bool, n)
		pfail := []int{10, 30, 50, 70, 95}[r.Intn(5)]
		for i := range outs {
			if r.Chance(pfail) {
				outs[i] = outFail
				if r.Chance(30) {
					outs[i] = outFailMsg
				}
			}
			aware[i] = r.Chance(60)
		}
		order := make([]int, n)
		for i := range order {
			order[i] = i
		}
		for i := n - 1; i > 0; i-- {
			j := r.Intn(i + 1)
			order[i], order[j] = order[j], order[i]
		}
		var a apiSel
		switch r.Intn(10) {
		case 0:
			a = apiSel{"one", 0}
		case 1:
			a = apiSel{"fast", 0}
		case 2:
			a = apiSel{"race", 0}
		case 3, 4:
			a = apiSel{"upto", r.Range(-1, n+1)}
		default:
			a = apiSel{"execute", r.Range(0, 7)}
			if r.Chance(3) {
				a.arg = []int{-1, 8, 100}[r.Intn(3)]
			}
		}
		add(a, outs, aware, order)
	}

	par := runtime.NumCPU()
	if par > 8 {
		par = 8
	}
	obs, err := runBatches(specs, 250, par)
	if err != nil {
		return err
	}
	for k, sp := range specs {
		ob := obs[k]
		js := map[string]any{"spec": sp, "observed": ob}
		coq := vcoq.App("KRun", coqAPI(sp), coqMembers(sp), coqOrder(sp), coqObs(ob))
		nfail := 0
		for _, x := range sp.Outs {
			if x != outOk {
				nfail++
			}
		}
		early := sp.API == "fast" || sp.API == "race" || (sp.API == "execute" && (sp.Arg == 5 || sp.Arg == 6))
		tags := []string{"api:" + sp.API, fmt.Sprintf("n:%d", len(sp.Outs))}
		if sp.API == "execute" {
			tags = append(tags, fmt.Sprintf("strategy:%d", sp.Arg))
		}
		if ob.Err != 0 {
			tags = append(tags, "returned-error")
		}
		if ob.Cancel >= 0 && ob.Cancel < ob.RetStep {
			tags = append(tags, "cancelled-before-return")
		}
		for _, s := range ob.Saw {
			if s >= 0 {
				tags = append(tags, "member-saw-cancel")
				break
			}
		}
		key, _ := json.Marshal(sp)
		o.Add(vcoq.Case{Coq: coq, JSON: js, Key: string(key), NonTrivial: len(sp.Outs) >= 2 && (nfail > 0 || early), Tags: tags})
		switch {
		case ob.Kind == "panic":
			o.Directs = append(o.Directs, vcoq.Direct{What: fmt.Sprintf("group call panicked: %s", ob.Panic), Class: "panic", Replay: js})
		case ob.Kind == "hang":
			o.Directs = append(o.Directs, vcoq.Direct{What: "group call did not return although every member returned", Class: "hang", Replay: js})
		}
		if ob.Leak > 0 {
			o.Directs = append(o.Directs, vcoq.Direct{What: fmt.Sprintf("%d goroutine(s) of pkg/group still blocked after every member returned [%s]", ob.Leak, ob.Stacks), Class: "goroutine-leak", Replay: js})
		}
		o.Directs = append(o.Directs, extraDirects(ob, js)...)
	}
	// free-running stage (sched.go): the same functions with no step discipline, schedule-independent facts only
	freeDs, freeInfo, err := runFree(tier, 4)
	if err != nil {
		return err
	}
	o.Directs = append(o.Directs, freeDs...)
	// keep the directs list short: the first of each class is enough for a replay
	seen := map[string]int{}
	var ds []vcoq.Direct
	for _, d := range o.Directs {
		seen[d.Class]++
		if seen[d.Class] <= 3 {
			ds = append(ds, d)
		}
	}
	o.Directs = ds
	o.Extra["coverage_extra"] = map[string]any{"exhaustive": true, "exhaustive_space": "n<=4, outcomes {ok,fail}^n, all n! orders, Execute strategies 0..7", "worker_batches": (len(specs) + 249) / 250, "free_running": freeInfo}
	return nil
}
