// Translator "groupexec": writes coq/theories/Gen/GroupExec.v from pkg/group/exec.go of the tree
// under check (go/ast + go/printer, no types needed):
//   - the values of the ExecutionStrategy constants (iota block),
//   - Execute's switch as a table strategy value -> function called, the default target, and
//     which targets go through singleResult,
//   - the error budget each of ExecuteAll / ExecuteMost / ExecuteAny passes to ExecuteUpTo,
//   - the shape of executeEach: capacity of the responses channel, WaitGroup.Add argument, the
//     statements of the member goroutine and of the closer goroutine, number of go statements,
//   - the statements of the receiving loops of ExecuteUpTo / ExecuteFast / ExecuteRace / ExecuteOne and of
//     singleResult.
// Group/ExecShape.v re-proves on every run that the table is the dispatch of the model (for every
// integer) and that the shapes are the ones the models Group/Exec.v and Group/ExecProc.v were
// written from, so a structural change of exec.go breaks a proof obligation directly.
package main

import (
	"bytes"
	"fmt"
	"go/ast"
	"go/parser"
	"go/printer"
	"go/token"
	"os"
	"path/filepath"
	"strings"

	"github.com/smart-core-os/sc-golang/verifharness/vcoq"
	"github.com/smart-core-os/sc-golang/verifharness/vh"
)

func init() { vh.RegisterTranslator("groupexec", translateGroupExec) }

func repoDir() string {
	if d := os.Getenv("VERIF_REPO"); d != "" {
		return d
	}
	return "/repo"
}

func src(fset *token.FileSet, n ast.Node) string {
	var b bytes.Buffer
	printer.Fprint(&b, fset, n)
	return strings.Join(strings.Fields(b.String()), " ")
}

// stmts prints a block as a flat list of statements: nested blocks are entered, with a marker line
// for the construct that opens them ("for ... {", "if ... {", "}" ).
func stmts(fset *token.FileSet, list []ast.Stmt) []string {
	var out []string
	for _, s := range list {
		switch x := s.(type) {
		case *ast.RangeStmt:
			h := "for "
			if x.Key != nil {
				h += src(fset, x.Key)
				if x.Value != nil {
					h += ", " + src(fset, x.Value)
				}
				h += " " + x.Tok.String() + " "
			}
			h += "range " + src(fset, x.X) + " {"
			out = append(out, h)
			out = append(out, stmts(fset, x.Body.List)...)
			out = append(out, "}")
		case *ast.IfStmt:
			h := "if "
			if x.Init != nil {
				h += src(fset, x.Init) + "; "
			}
			out = append(out, h+src(fset, x.Cond)+" {")
			out = append(out, stmts(fset, x.Body.List)...)
			if x.Else != nil {
				out = append(out, "} else {")
				if b, ok := x.Else.(*ast.BlockStmt); ok {
					out = append(out, stmts(fset, b.List)...)
				} else {
					out = append(out, stmts(fset, []ast.Stmt{x.Else})...)
				}
			}
			out = append(out, "}")
		case *ast.GoStmt:
			if fl, ok := x.Call.Fun.(*ast.FuncLit); ok {
				out = append(out, "go func() {")
				out = append(out, stmts(fset, fl.Body.List)...)
				out = append(out, "}()")
			} else {
				out = append(out, src(fset, x))
			}
		default:
			out = append(out, src(fset, s))
		}
	}
	return out
}

func coqStrs(l []string) string {
	it := make([]string, len(l))
	for i, s := range l {
		it[i] = vcoq.Str(s)
	}
	return "[" + strings.Join(it, ";\n   ") + "]"
}

func translateGroupExec(outDir string) error {
	path := filepath.Join(repoDir(), "pkg", "group", "exec.go")
	fset := token.NewFileSet()
	f, err := parser.ParseFile(fset, path, nil, 0)
	if err != nil {
		return err
	}
	funcs := map[string]*ast.FuncDecl{}
	consts := [][2]string{} // name, value
	for _, d := range f.Decls {
		switch x := d.(type) {
		case *ast.FuncDecl:
			if x.Recv == nil {
				funcs[x.Name.Name] = x
			}
		case *ast.GenDecl:
			if x.Tok != token.CONST {
				continue
			}
			// the ExecutionStrategy iota block: first spec `X ExecutionStrategy = iota`
			isBlock := false
			for i, sp := range x.Specs {
				vs := sp.(*ast.ValueSpec)
				if i == 0 {
					if id, ok := vs.Type.(*ast.Ident); ok && id.Name == "ExecutionStrategy" && len(vs.Values) == 1 && src(fset, vs.Values[0]) == "iota" {
						isBlock = true
					}
				}
				if !isBlock {
					break
				}
				if i > 0 && (vs.Type != nil || len(vs.Values) != 0) {
					return fmt.Errorf("%s: constant %s is not a plain continuation of the iota block", path, vs.Names[0].Name)
				}
				for _, n := range vs.Names {
					consts = append(consts, [2]string{n.Name, fmt.Sprint(i)})
				}
			}
		}
	}
	need := func(name string) (*ast.FuncDecl, error) {
		fd := funcs[name]
		if fd == nil || fd.Body == nil {
			return nil, fmt.Errorf("%s: function %s not found", path, name)
		}
		return fd, nil
	}
	constVal := map[string]string{}
	for _, c := range consts {
		constVal[c[0]] = c[1]
	}

	// ---- Execute's switch ----
	ex, err := need("Execute")
	if err != nil {
		return err
	}
	var sw *ast.SwitchStmt
	for _, s := range ex.Body.List {
		if x, ok := s.(*ast.SwitchStmt); ok {
			sw = x
		}
	}
	if sw == nil || len(ex.Body.List) != 1 || src(fset, sw.Tag) != "strategy" {
		return fmt.Errorf("%s: Execute is no longer a single switch on strategy", path)
	}
	type row struct{ val, target, single string }
	var rows []row
	deflt := ""
	target := func(body []ast.Stmt) (string, string, error) {
		// `return F(ctx, members)` or `res, i, err := F(ctx, members); return singleResult(len(members), i, res), err`
		switch len(body) {
		case 1:
			if r, ok := body[0].(*ast.ReturnStmt); ok && len(r.Results) == 1 {
				if c, ok := r.Results[0].(*ast.CallExpr); ok && src(fset, c) == src(fset, c.Fun)+"(ctx, members)" {
					return src(fset, c.Fun), "false", nil
				}
			}
		case 2:
			a, ok1 := body[0].(*ast.AssignStmt)
			r, ok2 := body[1].(*ast.ReturnStmt)
			if ok1 && ok2 && len(a.Rhs) == 1 && src(fset, r) == "return singleResult(len(members), i, res), err" {
				if c, ok := a.Rhs[0].(*ast.CallExpr); ok && src(fset, a) == "res, i, err := "+src(fset, c.Fun)+"(ctx, members)" {
					return src(fset, c.Fun), "true", nil
				}
			}
		}
		return "", "", fmt.Errorf("%s: unrecognised case body in Execute: %v", path, stmts(fset, body))
	}
	clauses := sw.Body.List
	for ci, cs := range clauses {
		cc := cs.(*ast.CaseClause)
		body := cc.Body
		// `default: fallthrough` takes the body of the next clause
		if len(body) == 1 {
			if b, ok := body[0].(*ast.BranchStmt); ok && b.Tok == token.FALLTHROUGH && ci+1 < len(clauses) {
				body = clauses[ci+1].(*ast.CaseClause).Body
			}
		}
		t, single, err := target(body)
		if err != nil {
			return err
		}
		if cc.List == nil {
			deflt = t
			if single != "false" {
				return fmt.Errorf("%s: Execute's default goes through singleResult", path)
			}
			continue
		}
		for _, e := range cc.List {
			v, ok := constVal[src(fset, e)]
			if !ok {
				return fmt.Errorf("%s: case %s is not an ExecutionStrategy constant", path, src(fset, e))
			}
			rows = append(rows, row{v, t, single})
		}
	}

	// ---- budgets ----
	budget := func(name string) (string, error) {
		fd, err := need(name)
		if err != nil {
			return "", err
		}
		var lines []string
		for _, s := range fd.Body.List {
			lines = append(lines, src(fset, s))
		}
		return strings.Join(lines, "; "), nil
	}
	var budgets [][2]string
	for _, n := range []string{"ExecuteAll", "ExecuteMost", "ExecuteAny"} {
		b, err := budget(n)
		if err != nil {
			return err
		}
		budgets = append(budgets, [2]string{n, b})
	}

	// ---- executeEach ----
	each, err := need("executeEach")
	if err != nil {
		return err
	}
	chanCap, wgAdd := "", ""
	ngo := 0
	ast.Inspect(each.Body, func(n ast.Node) bool {
		switch x := n.(type) {
		case *ast.GoStmt:
			ngo++
		case *ast.CallExpr:
			if id, ok := x.Fun.(*ast.Ident); ok && id.Name == "make" && len(x.Args) >= 1 {
				if _, ok := x.Args[0].(*ast.ChanType); ok {
					if len(x.Args) == 2 {
						chanCap = src(fset, x.Args[1])
					} else {
						chanCap = "0"
					}
				}
			}
			if se, ok := x.Fun.(*ast.SelectorExpr); ok && se.Sel.Name == "Add" && len(x.Args) == 1 {
				wgAdd = src(fset, se.X) + ".Add(" + src(fset, x.Args[0]) + ")"
			}
		}
		return true
	})

	var b strings.Builder
	b.WriteString("(* GENERATED by harness/c17 (translator \"groupexec\") from pkg/group/exec.go of the tree under check. Do not edit. *)\n")
	b.WriteString("From Coq Require Import ZArith List String.\nImport ListNotations.\nOpen Scope Z_scope.\nOpen Scope string_scope.\n\n")
	it := make([]string, len(consts))
	for i, c := range consts {
		it[i] = "(" + vcoq.Str(c[0]) + ", " + c[1] + ")"
	}
	b.WriteString("Definition strategy_consts : list (string * Z) :=\n  [" + strings.Join(it, ";\n   ") + "].\n\n")
	it = make([]string, len(rows))
	for i, r := range rows {
		it[i] = "(" + r.val + ", (" + vcoq.Str(r.target) + ", " + r.single + "))"
	}
	b.WriteString("(* Execute's switch: strategy value -> (function called, result placed by singleResult) *)\n")
	b.WriteString("Definition dispatch : list (Z * (string * bool)) :=\n  [" + strings.Join(it, ";\n   ") + "].\n")
	b.WriteString("Definition dispatch_default : string := " + vcoq.Str(deflt) + ".\n\n")
	it = make([]string, len(budgets))
	for i, c := range budgets {
		it[i] = "(" + vcoq.Str(c[0]) + ", " + vcoq.Str(c[1]) + ")"
	}
	b.WriteString("Definition budgets : list (string * string) :=\n  [" + strings.Join(it, ";\n   ") + "].\n\n")
	b.WriteString("Definition each_chan_cap : string := " + vcoq.Str(chanCap) + ".\n")
	b.WriteString("Definition each_wg_add : string := " + vcoq.Str(wgAdd) + ".\n")
	b.WriteString(fmt.Sprintf("Definition each_go_statements : Z := %d.\n", ngo))
	b.WriteString("Definition each_body : list string :=\n  " + coqStrs(stmts(fset, each.Body.List)) + ".\n\n")
	for _, n := range []string{"ExecuteUpTo", "ExecuteOne", "ExecuteFast", "ExecuteRace", "singleResult"} {
		fd, err := need(n)
		if err != nil {
			return err
		}
		b.WriteString("Definition body_" + n + " : list string :=\n  " + coqStrs(stmts(fset, fd.Body.List)) + ".\n\n")
	}
	return os.WriteFile(filepath.Join(outDir, "GroupExec.v"), []byte(b.String()), 0o644)
}
