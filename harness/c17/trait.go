// Second generator of the C17 harness ("C17T"): the callers of group.Execute in
// pkg/trait/onoffpb/group.go and pkg/trait/lightpb/group.go.
//
// Unary calls (GetOnOff/UpdateOnOff/GetBrightness/UpdateBrightness) run against a fake member
// client whose methods are gated members exactly like the members of runOne in c17.go: one member
// is released per step, the driver waits for quiescence in between.
//
// Pull calls run against fake member streams the driver advances one event at a time (a member
// delivers a message / a member's stream ends with its error / the server context is cancelled)
// and a fake server stream that records every message sent and can fail the k-th Send.
//
// Runs happen in worker subprocesses like those of c17.go; the worker mode is entered from init()
// of this file so that c17.go needs no change.
package main

import (
	"bufio"
	"bytes"
	"context"
	"encoding/json"
	"errors"
	"fmt"
	"io"
	"math/big"
	"os"
	"os/exec"
	"runtime"
	"sort"
	"strconv"
	"strings"
	"sync"
	"sync/atomic"
	"time"

	"github.com/smart-core-os/sc-api/go/traits"
	"github.com/smart-core-os/sc-golang/pkg/group"
	"github.com/smart-core-os/sc-golang/pkg/trait/lightpb"
	"github.com/smart-core-os/sc-golang/pkg/trait/onoffpb"
	"github.com/smart-core-os/sc-golang/verifharness/vcoq"
	"github.com/smart-core-os/sc-golang/verifharness/vh"
	"google.golang.org/grpc"
	"google.golang.org/protobuf/proto"
	"google.golang.org/protobuf/reflect/protoreflect"
	"google.golang.org/protobuf/types/known/fieldmaskpb"
	"google.golang.org/protobuf/types/known/timestamppb"
)

func init() {
	vh.Register("C17T", genC17T)
	if len(os.Args) > 1 && os.Args[1] == "c17t-worker" {
		tworker()
		os.Exit(0)
	}
}

const groupName = "the-group"

func memberName(i int) string { return "member-" + strconv.Itoa(i) }

// ---- specs and observations ----

type TChange struct {
	Num  int64 `json:"num"` // onoff: the state; light: level = num/den
	Den  int64 `json:"den"`
	Time int64 `json:"time"` // 0: no change time
}
type TEvent struct {
	Kind    string    `json:"kind"` // msg | end | parent
	I       int       `json:"i"`
	Changes []TChange `json:"changes,omitempty"`
}
type TSpec struct {
	Kind     string    `json:"kind"`  // unary | pull
	Trait    string    `json:"trait"` // onoff | light
	Write    bool      `json:"write"`
	Strategy int       `json:"strategy"`
	Other    int       `json:"other"` // the strategy put in the execution field the call must NOT use
	Outs     []int     `json:"outs"`
	Aware    []bool    `json:"aware"`
	Vals     []TChange `json:"vals,omitempty"`
	Order    []int     `json:"order,omitempty"`
	Eofs     []bool    `json:"eofs,omitempty"`
	OpenFail []bool    `json:"openfail,omitempty"`
	FailAt   int       `json:"failat,omitempty"`
	Events   []TEvent  `json:"events,omitempty"`
}
type TSent struct {
	Step int64  `json:"step"`
	Num  string `json:"num"`
	Den  string `json:"den"`
	Time int64  `json:"time"`
	OK   bool   `json:"ok"`
}
type TObs struct {
	Kind    string   `json:"kind"` // ret | panic | hang
	HasVal  bool     `json:"hasval"`
	Num     string   `json:"num,omitempty"`
	Den     string   `json:"den,omitempty"`
	Err     int64    `json:"err"`
	Calls   []int64  `json:"calls"`
	Cancel  int64    `json:"cancel"`
	RetStep int64    `json:"retstep"`
	Saw     []int64  `json:"saw"`
	Leak    int64    `json:"leak"`
	Names   bool     `json:"names"`
	ReqSame bool     `json:"reqsame"`
	Sent    []TSent  `json:"sent,omitempty"`
	Issued  []TEvent `json:"issued,omitempty"` // Pull: the events actually delivered (cleanup included)
	Exact   bool     `json:"exact"`            // statistics only: Go-side estimate of the float32 exactness guard
	Panic   string   `json:"panic,omitempty"`
	Stacks  string   `json:"stacks,omitempty"`
}

type sendErr struct{ k int }

func (e *sendErr) Error() string { return "send " + strconv.Itoa(e.k) + " failed" }

func canonErrT(err error, pull bool) int64 {
	if err == nil {
		return 0
	}
	var me *memberErr
	if errors.As(err, &me) {
		return int64(me.i) + 1
	}
	var ce *cancelErr
	if errors.As(err, &ce) {
		if pull {
			return 1000
		}
		return 1000 + int64(ce.i) + 1
	}
	var se *sendErr
	if errors.As(err, &se) {
		return 3000 + int64(se.k)
	}
	if err == context.Canceled {
		return 2000
	}
	if err == io.EOF {
		return 4000
	}
	return -1
}

// ---- goroutine dumps: pkg/group, the two trait packages, and the harness ----

func snapshotT() []gor {
	buf := dumpBuf
	for {
		n := runtime.Stack(buf, true)
		if n < len(buf) {
			buf = buf[:n]
			break
		}
		buf = make([]byte, 2*len(buf))
		dumpBuf = buf
	}
	var out []gor
	for k, blk := range bytes.Split(buf, []byte("\n\n")) {
		if k == 0 {
			continue // the calling goroutine
		}
		s := string(blk)
		if !strings.HasPrefix(s, "goroutine ") {
			continue
		}
		isCode := strings.Contains(s, "sc-golang/pkg/group.") ||
			strings.Contains(s, "sc-golang/pkg/trait/onoffpb.") ||
			strings.Contains(s, "sc-golang/pkg/trait/lightpb.")
		if !isCode && !strings.Contains(s, "\nmain.") {
			continue
		}
		hdr := s[:strings.IndexByte(s+"\n", '\n')]
		f := strings.SplitN(hdr, " ", 3)
		st := ""
		if len(f) == 3 {
			st = strings.Trim(f[2], "[]:")
		}
		// A goroutine whose allocation starts a garbage-collection cycle parks on a runtime-internal
		// semaphore (gcStart waits for worldsema, which this very stack dump holds while the world is
		// stopped): it shows as "semacquire" with no sync frame on top and continues on its own.
		// Only semaphores of package sync (WaitGroup.Wait, Mutex.Lock) are waits on other goroutines.
		if strings.HasPrefix(st, "semacquire") && !strings.Contains(s, "sync.runtime_Semacquire") {
			st = "runtime-" + st
		}
		out = append(out, gor{id: f[1], status: st, group: isCode})
	}
	return out
}

func fingerprint(gs []gor) string {
	var b strings.Builder
	for _, g := range gs {
		b.WriteString(g.id)
		b.WriteByte(':')
		b.WriteString(g.status)
		b.WriteByte(';')
	}
	return b.String()
}

// quiesceT waits until no relevant goroutine can run: two consecutive stop-the-world dumps, with a
// yield in between, in which every relevant goroutine is parked on a channel / select / sync
// primitive and which show the same goroutines in the same states.
func quiesceT() ([]gor, bool) {
	deadline := time.Now().Add(5 * time.Second)
	prev := ""
	for k := 0; ; k++ {
		gs := snapshotT()
		ok := true
		for _, g := range gs {
			if busy(g) {
				ok = false
				break
			}
		}
		if ok {
			fp := "q" + fingerprint(gs)
			if fp == prev {
				return gs, true
			}
			prev = fp
			if time.Now().After(deadline) {
				return gs, false
			}
			runtime.Gosched()
			continue
		}
		prev = ""
		if time.Now().After(deadline) {
			return gs, false
		}
		if k < 50 {
			runtime.Gosched()
		} else {
			time.Sleep(20 * time.Microsecond)
		}
	}
}

func leakT(pre map[string]bool) (int64, string) {
	count := func() (int64, string) {
		gs, _ := quiesceT()
		var c int64
		var desc []string
		for _, g := range gs {
			if g.group && !pre[g.id] {
				c++
				desc = append(desc, g.status)
			}
		}
		sort.Strings(desc)
		return c, strings.Join(desc, ",")
	}
	l, desc := count()
	for k := 0; k < 3 && l > 0; k++ {
		time.Sleep(200 * time.Microsecond)
		l, desc = count()
	}
	return l, desc
}

// ---- values ----

func f32(c TChange) float32 { return float32(c.Num) / float32(c.Den) }

func ratOf(f float32) *big.Rat { return new(big.Rat).SetFloat64(float64(f)) }

func onoffMsg(c TChange) *traits.OnOff { return &traits.OnOff{State: traits.OnOff_State(c.Num)} }
func lightMsg(c TChange) *traits.Brightness {
	return &traits.Brightness{LevelPercent: f32(c)}
}

// ---- the gated members of a unary call ----

type unaryHarness struct {
	sp       TSpec
	gates    []chan struct{}
	ctxs     []atomic.Value
	step     atomic.Int64
	mu       sync.Mutex
	calls    []int64
	saw      []int64
	namesOK  bool
	orig     proto.Message // the caller's request
	origCopy proto.Message
}

func setName(m proto.Message, name string) {
	r := m.ProtoReflect()
	fd := r.Descriptor().Fields().ByName("name")
	r.Set(fd, protoreflect.ValueOfString(name))
}

// member is the body of every fake unary method: it returns the member's index and whether it
// was released (false: its context was cancelled first)
func (h *unaryHarness) member(ctx context.Context, name string, in proto.Message) (int, error, bool) {
	i := -1
	for k := range h.sp.Outs {
		if memberName(k) == name {
			i = k
		}
	}
	want := proto.Clone(h.origCopy)
	setName(want, name)
	h.mu.Lock()
	if i < 0 || in == h.orig || !proto.Equal(want, in) {
		h.namesOK = false
	}
	for _, c := range h.calls {
		if c == int64(i) {
			h.namesOK = false // the same member name twice
		}
	}
	h.calls = append(h.calls, int64(i))
	h.mu.Unlock()
	if i < 0 {
		return -1, errors.New("unknown member name"), false
	}
	h.ctxs[i].Store(ctx)
	if h.sp.Aware[i] {
		cancelled := false
		select {
		case <-ctx.Done():
			cancelled = true
		default:
			select {
			case <-ctx.Done():
				cancelled = true
			case <-h.gates[i]:
			}
		}
		if cancelled {
			h.mu.Lock()
			h.saw[i] = h.step.Load()
			h.mu.Unlock()
			return i, &cancelErr{i, ctx.Err()}, false
		}
	} else {
		<-h.gates[i]
	}
	if h.sp.Outs[i] == outOk {
		return i, nil, true
	}
	return i, &memberErr{i}, true
}

type fakeOnOff struct {
	traits.OnOffApiClient
	h *unaryHarness
	p *pullHarness
}

func (f *fakeOnOff) unary(ctx context.Context, name string, in proto.Message) (*traits.OnOff, error) {
	i, err, released := f.h.member(ctx, name, in)
	if i < 0 || !released || f.h.sp.Outs[i] == outFail {
		return nil, err
	}
	return onoffMsg(f.h.sp.Vals[i]), err
}
func (f *fakeOnOff) GetOnOff(ctx context.Context, in *traits.GetOnOffRequest, _ ...grpc.CallOption) (*traits.OnOff, error) {
	return f.unary(ctx, in.Name, in)
}
func (f *fakeOnOff) UpdateOnOff(ctx context.Context, in *traits.UpdateOnOffRequest, _ ...grpc.CallOption) (*traits.OnOff, error) {
	return f.unary(ctx, in.Name, in)
}

type fakeLight struct {
	traits.LightApiClient
	h *unaryHarness
	p *pullHarness
}

func (f *fakeLight) unary(ctx context.Context, name string, in proto.Message) (*traits.Brightness, error) {
	i, err, released := f.h.member(ctx, name, in)
	if i < 0 || !released || f.h.sp.Outs[i] == outFail {
		return nil, err
	}
	return lightMsg(f.h.sp.Vals[i]), err
}
func (f *fakeLight) GetBrightness(ctx context.Context, in *traits.GetBrightnessRequest, _ ...grpc.CallOption) (*traits.Brightness, error) {
	return f.unary(ctx, in.Name, in)
}
func (f *fakeLight) UpdateBrightness(ctx context.Context, in *traits.UpdateBrightnessRequest, _ ...grpc.CallOption) (*traits.Brightness, error) {
	return f.unary(ctx, in.Name, in)
}

type unaryResult struct {
	has      bool
	num, den string
	err      error
	panic    string
}

func names(n int) []string {
	out := make([]string, n)
	for i := range out {
		out[i] = memberName(i)
	}
	return out
}

func runUnary(sp TSpec) TObs {
	n := len(sp.Outs)
	parent, cancelParent := context.WithCancel(context.Background())
	defer cancelParent()
	pre := map[string]bool{}
	for _, g := range snapshotT() {
		pre[g.id] = true
	}
	h := &unaryHarness{sp: sp, gates: make([]chan struct{}, n), ctxs: make([]atomic.Value, n), saw: make([]int64, n), namesOK: true}
	for i := range h.gates {
		h.gates[i] = make(chan struct{})
		h.saw[i] = -1
	}
	read, write := group.ExecutionStrategy(sp.Strategy), group.ExecutionStrategy(sp.Other)
	if sp.Write {
		read, write = write, read
	}
	var call func() unaryResult
	switch sp.Trait {
	case "onoff":
		g := onoffpb.NewGroup(&fakeOnOff{h: h}, names(n)...)
		g.ReadExecution, g.WriteExecution = read, write
		conv := func(v *traits.OnOff, err error) unaryResult {
			if v == nil {
				return unaryResult{err: err}
			}
			return unaryResult{has: true, num: strconv.Itoa(int(v.State)), den: "1", err: err}
		}
		if sp.Write {
			req := &traits.UpdateOnOffRequest{Name: groupName, OnOff: &traits.OnOff{State: traits.OnOff_ON}, UpdateMask: &fieldmaskpb.FieldMask{Paths: []string{"state"}}}
			h.orig, h.origCopy = req, proto.Clone(req)
			call = func() unaryResult { return conv(g.UpdateOnOff(parent, req)) }
		} else {
			req := &traits.GetOnOffRequest{Name: groupName, ReadMask: &fieldmaskpb.FieldMask{Paths: []string{"state"}}}
			h.orig, h.origCopy = req, proto.Clone(req)
			call = func() unaryResult { return conv(g.GetOnOff(parent, req)) }
		}
	default:
		g := lightpb.NewGroup(&fakeLight{h: h}, names(n)...)
		g.ReadExecution, g.WriteExecution = read, write
		conv := func(v *traits.Brightness, err error) unaryResult {
			if v == nil {
				return unaryResult{err: err}
			}
			r := ratOf(v.LevelPercent)
			return unaryResult{has: true, num: r.Num().String(), den: r.Denom().String(), err: err}
		}
		if sp.Write {
			req := &traits.UpdateBrightnessRequest{Name: groupName, Brightness: &traits.Brightness{LevelPercent: 42.5}, Delta: true, UpdateMask: &fieldmaskpb.FieldMask{Paths: []string{"level_percent"}}}
			h.orig, h.origCopy = req, proto.Clone(req)
			call = func() unaryResult { return conv(g.UpdateBrightness(parent, req)) }
		} else {
			req := &traits.GetBrightnessRequest{Name: groupName, ReadMask: &fieldmaskpb.FieldMask{Paths: []string{"level_percent"}}}
			h.orig, h.origCopy = req, proto.Clone(req)
			call = func() unaryResult { return conv(g.GetBrightness(parent, req)) }
		}
	}

	done := make(chan unaryResult, 1)
	go func() {
		var r unaryResult
		defer func() {
			if p := recover(); p != nil {
				r = unaryResult{panic: "panic: " + fmt.Sprint(p)}
			}
			done <- r
		}()
		r = call()
	}()

	ob := TObs{Kind: "hang", Cancel: -1, RetStep: -1}
	var result *unaryResult
	observe := func(s int64) {
		if result == nil {
			select {
			case r := <-done:
				result = &r
				ob.RetStep = s
			default:
			}
		}
		if ob.Cancel < 0 {
			for i := range h.ctxs {
				if c, ok := h.ctxs[i].Load().(context.Context); ok && c.Err() != nil {
					ob.Cancel = s
					break
				}
			}
		}
	}
	stuck := false
	if _, ok := quiesceT(); !ok {
		stuck = true
	}
	observe(0)
	for k, i := range sp.Order {
		h.step.Store(int64(k) + 1)
		close(h.gates[i])
		if _, ok := quiesceT(); !ok {
			stuck = true
		}
		observe(int64(k) + 1)
	}
	l, desc := leakT(pre)
	observe(int64(len(sp.Order)))
	if result != nil {
		ob.Kind = "ret"
		if result.panic != "" {
			ob.Kind, ob.Panic = "panic", result.panic
		}
		ob.HasVal, ob.Num, ob.Den = result.has, result.num, result.den
		ob.Err = canonErrT(result.err, false)
	} else {
		l = 0
		for _, g := range snapshotT() {
			if g.group && !pre[g.id] {
				l++
			}
		}
		if l > 0 {
			l-- // the caller itself
		}
	}
	ob.Leak = l
	if l > 0 {
		ob.Stacks = desc
	}
	if stuck {
		ob.Stacks += " (quiescence wait timed out)"
	}
	h.mu.Lock()
	ob.Calls = append([]int64{}, h.calls...)
	ob.Saw = append([]int64{}, h.saw...)
	ob.Names = h.namesOK
	h.mu.Unlock()
	if sp.Strategy != int(group.ExecutionStrategyOne) {
		sort.Slice(ob.Calls, func(a, b int) bool { return ob.Calls[a] < ob.Calls[b] })
	}
	ob.ReqSame = proto.Equal(h.orig, h.origCopy)
	ob.Exact = unaryExactEstimate(sp, ob)
	return ob
}

// ---- float32 exactness, Go side (statistics only; the judge's guard is evaluated in Coq) ----

func exactRat(r *big.Rat) bool {
	d := r.Denom()
	if d.BitLen() > 21 || new(big.Int).And(d, new(big.Int).Sub(d, big.NewInt(1))).Sign() != 0 {
		return false
	}
	return new(big.Int).Abs(r.Num()).BitLen() <= 24
}

// foldExact replays the index-weighted reducer over exact rationals; acc == nil: starts nil (Pull)
func foldExact(acc *big.Rat, slots []*big.Rat) bool {
	for i, v := range slots {
		if v == nil {
			continue
		}
		if !exactRat(v) {
			return false
		}
		if acc == nil {
			acc = new(big.Rat).Set(v)
			continue
		}
		if !exactRat(acc) {
			return false
		}
		a := new(big.Rat).Mul(acc, big.NewRat(int64(i), 1))
		if !exactRat(a) {
			return false
		}
		a.Add(a, v)
		if !exactRat(a) {
			return false
		}
		a.Quo(a, big.NewRat(int64(i)+1, 1))
		if !exactRat(a) {
			return false
		}
		acc = a
	}
	return true
}

func unaryExactEstimate(sp TSpec, ob TObs) bool {
	if sp.Trait != "light" || ob.Err != 0 || !ob.HasVal {
		return true
	}
	n := len(sp.Outs)
	slots := make([]*big.Rat, n)
	set := func(j int) {
		if sp.Outs[j] != outFail {
			slots[j] = big.NewRat(sp.Vals[j].Num, sp.Vals[j].Den)
		}
	}
	switch sp.Strategy {
	case 4:
		for j := 0; j < n; j++ {
			if sp.Outs[j] == outOk {
				set(j)
				break
			}
		}
	case 5:
		for _, j := range sp.Order {
			if sp.Outs[j] == outOk {
				set(j)
				break
			}
		}
	case 6:
		if len(sp.Order) > 0 {
			set(sp.Order[0])
		}
	default:
		for j := 0; j < n; j++ {
			if ob.Saw[j] < 0 {
				set(j)
			}
		}
	}
	return foldExact(new(big.Rat), slots)
}

// ---- Pull ----

type action struct {
	end     bool
	changes []TChange
}

type pullHarness struct {
	sp       TSpec
	ch       []chan action
	ctxs     []atomic.Value
	step     atomic.Int64
	mu       sync.Mutex
	opened   []int64
	saw      []int64
	namesOK  bool
	sent     []TSent
	nsend    int
	orig     proto.Message
	origCopy proto.Message
}

func (p *pullHarness) endErr(i int) error {
	if p.sp.Eofs[i] {
		return io.EOF
	}
	return &memberErr{i}
}

// open is the body of the fake PullX client methods
func (p *pullHarness) open(ctx context.Context, name string, in proto.Message) (int, error) {
	i := -1
	for k := range p.sp.Outs {
		if memberName(k) == name {
			i = k
		}
	}
	want := proto.Clone(p.origCopy)
	setName(want, name)
	p.mu.Lock()
	if i < 0 || in == p.orig || !proto.Equal(want, in) {
		p.namesOK = false
	}
	for _, c := range p.opened {
		if c == int64(i) {
			p.namesOK = false
		}
	}
	p.opened = append(p.opened, int64(i))
	p.mu.Unlock()
	if i < 0 {
		return -1, errors.New("unknown member name")
	}
	p.ctxs[i].Store(ctx)
	if p.sp.OpenFail[i] {
		_, err := p.next(i, ctx)
		if err == nil {
			err = p.endErr(i)
		}
		return i, err
	}
	return i, nil
}

// next is the body of the fake streams' Recv: wait for the driver's next action
func (p *pullHarness) next(i int, ctx context.Context) ([]TChange, error) {
	var a action
	if p.sp.Aware[i] {
		cancelled := false
		select {
		case <-ctx.Done():
			cancelled = true
		default:
			select {
			case <-ctx.Done():
				cancelled = true
			case a = <-p.ch[i]:
			}
		}
		if cancelled {
			p.mu.Lock()
			p.saw[i] = p.step.Load()
			p.mu.Unlock()
			return nil, &cancelErr{i, ctx.Err()}
		}
	} else {
		a = <-p.ch[i]
	}
	if a.end {
		return nil, p.endErr(i)
	}
	return a.changes, nil
}

func tsOf(t int64) *timestamppb.Timestamp {
	if t == 0 {
		return nil
	}
	return &timestamppb.Timestamp{Seconds: t}
}
func timeOf(ts *timestamppb.Timestamp) int64 {
	if ts != nil && ts.Nanos == 0 && ts.Seconds > 0 && ts.Seconds < 100000 {
		return ts.Seconds
	}
	return 0 // "now" (or none)
}

func (p *pullHarness) recordSend(s TSent) error {
	p.mu.Lock()
	defer p.mu.Unlock()
	s.Step = p.step.Load()
	p.sent = append(p.sent, s)
	p.nsend++
	if p.nsend == p.sp.FailAt {
		return &sendErr{p.nsend}
	}
	return nil
}

type onoffStream struct {
	grpc.ClientStream
	p   *pullHarness
	i   int
	ctx context.Context
}

func (s *onoffStream) Recv() (*traits.PullOnOffResponse, error) {
	chs, err := s.p.next(s.i, s.ctx)
	if err != nil {
		return nil, err
	}
	m := &traits.PullOnOffResponse{}
	for _, c := range chs {
		m.Changes = append(m.Changes, &traits.PullOnOffResponse_Change{Name: memberName(s.i), OnOff: onoffMsg(c), ChangeTime: tsOf(c.Time)})
	}
	return m, nil
}
func (f *fakeOnOff) PullOnOff(ctx context.Context, in *traits.PullOnOffRequest, _ ...grpc.CallOption) (grpc.ServerStreamingClient[traits.PullOnOffResponse], error) {
	i, err := f.p.open(ctx, in.Name, in)
	if err != nil {
		return nil, err
	}
	return &onoffStream{p: f.p, i: i, ctx: ctx}, nil
}

type onoffServer struct {
	grpc.ServerStream
	p   *pullHarness
	ctx context.Context
}

func (s *onoffServer) Context() context.Context { return s.ctx }
func (s *onoffServer) Send(m *traits.PullOnOffResponse) error {
	rec := TSent{Num: "-1", Den: "1"}
	if len(m.Changes) == 1 && m.Changes[0].OnOff != nil {
		c := m.Changes[0]
		rec = TSent{Num: strconv.Itoa(int(c.OnOff.State)), Den: "1", Time: timeOf(c.ChangeTime), OK: c.Name == groupName && c.ChangeTime != nil}
	}
	return s.p.recordSend(rec)
}

type lightStream struct {
	grpc.ClientStream
	p   *pullHarness
	i   int
	ctx context.Context
}

func (s *lightStream) Recv() (*traits.PullBrightnessResponse, error) {
	chs, err := s.p.next(s.i, s.ctx)
	if err != nil {
		return nil, err
	}
	m := &traits.PullBrightnessResponse{}
	for _, c := range chs {
		m.Changes = append(m.Changes, &traits.PullBrightnessResponse_Change{Name: memberName(s.i), Brightness: lightMsg(c), ChangeTime: tsOf(c.Time)})
	}
	return m, nil
}
func (f *fakeLight) PullBrightness(ctx context.Context, in *traits.PullBrightnessRequest, _ ...grpc.CallOption) (grpc.ServerStreamingClient[traits.PullBrightnessResponse], error) {
	i, err := f.p.open(ctx, in.Name, in)
	if err != nil {
		return nil, err
	}
	return &lightStream{p: f.p, i: i, ctx: ctx}, nil
}

type lightServer struct {
	grpc.ServerStream
	p   *pullHarness
	ctx context.Context
}

func (s *lightServer) Context() context.Context { return s.ctx }
func (s *lightServer) Send(m *traits.PullBrightnessResponse) error {
	rec := TSent{Num: "-1", Den: "1"}
	if len(m.Changes) == 1 && m.Changes[0].Brightness != nil {
		c := m.Changes[0]
		r := ratOf(c.Brightness.LevelPercent)
		rec = TSent{Num: r.Num().String(), Den: r.Denom().String(), Time: timeOf(c.ChangeTime), OK: c.Name == groupName && c.ChangeTime != nil}
	}
	return s.p.recordSend(rec)
}

func runPull(sp TSpec) TObs {
	n := len(sp.Outs)
	parent, cancelParent := context.WithCancel(context.Background())
	defer cancelParent()
	pre := map[string]bool{}
	for _, g := range snapshotT() {
		pre[g.id] = true
	}
	p := &pullHarness{sp: sp, ch: make([]chan action, n), ctxs: make([]atomic.Value, n), saw: make([]int64, n), namesOK: true}
	for i := range p.ch {
		p.ch[i] = make(chan action)
		p.saw[i] = -1
	}
	var call func() error
	if sp.Trait == "onoff" {
		g := onoffpb.NewGroup(&fakeOnOff{p: p}, names(n)...)
		g.ReadExecution, g.WriteExecution = group.ExecutionStrategy(sp.Strategy), group.ExecutionStrategy(sp.Other)
		req := &traits.PullOnOffRequest{Name: groupName, ReadMask: &fieldmaskpb.FieldMask{Paths: []string{"state"}}, UpdatesOnly: true}
		p.orig, p.origCopy = req, proto.Clone(req)
		call = func() error { return g.PullOnOff(req, &onoffServer{p: p, ctx: parent}) }
	} else {
		g := lightpb.NewGroup(&fakeLight{p: p}, names(n)...)
		g.ReadExecution, g.WriteExecution = group.ExecutionStrategy(sp.Strategy), group.ExecutionStrategy(sp.Other)
		req := &traits.PullBrightnessRequest{Name: groupName, ExcludeRamping: true, ReadMask: &fieldmaskpb.FieldMask{Paths: []string{"level_percent"}}, UpdatesOnly: true}
		p.orig, p.origCopy = req, proto.Clone(req)
		call = func() error { return g.PullBrightness(req, &lightServer{p: p, ctx: parent}) }
	}
	type pres struct {
		err   error
		panic string
	}
	done := make(chan pres, 1)
	go func() {
		var r pres
		defer func() {
			if x := recover(); x != nil {
				r = pres{panic: "panic: " + fmt.Sprint(x)}
			}
			done <- r
		}()
		r.err = call()
	}()

	ob := TObs{Kind: "hang", Cancel: -1, RetStep: -1, Exact: true}
	var result *pres
	observe := func(s int64) {
		if result == nil {
			select {
			case r := <-done:
				result = &r
				ob.RetStep = s
			default:
			}
		}
		if ob.Cancel < 0 {
			for i := range p.ctxs {
				if c, ok := p.ctxs[i].Load().(context.Context); ok && c.Err() != nil {
					ob.Cancel = s
					break
				}
			}
		}
	}
	stuck := false
	if _, ok := quiesceT(); !ok {
		stuck = true
	}
	observe(0)
	step := int64(0)
	sendFailed := func() bool {
		p.mu.Lock()
		defer p.mu.Unlock()
		return sp.FailAt > 0 && p.nsend >= sp.FailAt
	}
	// statistics: the latest level of each member as the main loop saw it
	latest := make([]*big.Rat, n)
	issue := func(ev TEvent) {
		var a action
		switch ev.Kind {
		case "parent":
		case "end":
			a.end = true
		default:
			if sp.OpenFail[ev.I] {
				return
			}
			// a context-ignoring stream delivering while the context is cancelled and the main loop
			// still receives: both arms of the member's select are ready, the outcome is the scheduler's
			if !sp.Aware[ev.I] && ob.Cancel >= 0 && result == nil && !sendFailed() {
				return
			}
			a.changes = ev.Changes
		}
		listening := result == nil && !sendFailed()
		p.step.Store(step + 1)
		if ev.Kind == "parent" {
			cancelParent()
		} else {
			select {
			case p.ch[ev.I] <- a:
			default:
				return // the member is not waiting in its stream: it has returned
			}
		}
		step++
		ob.Issued = append(ob.Issued, ev)
		if _, ok := quiesceT(); !ok {
			stuck = true
		}
		observe(step)
		if ev.Kind == "msg" && listening && len(ev.Changes) > 0 && sp.Trait == "light" {
			c := ev.Changes[len(ev.Changes)-1]
			latest[ev.I] = big.NewRat(c.Num, c.Den)
			if !foldExact(nil, latest) {
				ob.Exact = false
			}
		}
	}
	for _, ev := range sp.Events {
		if ev.Kind != "parent" && (ev.I < 0 || ev.I >= n) {
			continue
		}
		issue(ev)
	}
	for i := 0; i < n; i++ { // cleanup: every stream still open ends
		issue(TEvent{Kind: "end", I: i})
	}
	l, desc := leakT(pre)
	observe(step)
	if result != nil {
		ob.Kind = "ret"
		if result.panic != "" {
			ob.Kind, ob.Panic = "panic", result.panic
		}
		ob.Err = canonErrT(result.err, true)
	}
	ob.Leak = l
	if l > 0 {
		ob.Stacks = desc
	}
	if stuck {
		ob.Stacks += " (quiescence wait timed out)"
	}
	p.mu.Lock()
	ob.Calls = append([]int64{}, p.opened...)
	ob.Saw = append([]int64{}, p.saw...)
	ob.Names = p.namesOK
	ob.Sent = append([]TSent{}, p.sent...)
	p.mu.Unlock()
	sort.Slice(ob.Calls, func(a, b int) bool { return ob.Calls[a] < ob.Calls[b] })
	for _, s := range ob.Sent {
		if !s.OK {
			ob.Names = false
		}
	}
	if len(ob.Calls) != n {
		ob.Names = false
	}
	for i, c := range ob.Calls {
		if c != int64(i) {
			ob.Names = false
		}
	}
	ob.ReqSame = proto.Equal(p.orig, p.origCopy)
	if !ob.ReqSame {
		ob.Names = false
	}
	return ob
}

// ---- worker subprocess ----

func runT(sp TSpec) TObs {
	if sp.Kind == "pull" {
		return runPull(sp)
	}
	return runUnary(sp)
}

func tworker() {
	var specs []TSpec
	if err := json.NewDecoder(bufio.NewReader(os.Stdin)).Decode(&specs); err != nil {
		fmt.Fprintln(os.Stderr, "c17t worker:", err)
		os.Exit(2)
	}
	out := make([]TObs, len(specs))
	for i, sp := range specs {
		out[i] = runT(sp)
	}
	w := bufio.NewWriter(os.Stdout)
	json.NewEncoder(w).Encode(out)
	w.Flush()
}

func runBatchesT(specs []TSpec, batch, par int) ([]TObs, error) {
	exe, err := os.Executable()
	if err != nil {
		return nil, err
	}
	obs := make([]TObs, len(specs))
	type job struct{ lo, hi int }
	jobs := make(chan job)
	errs := make(chan error, (len(specs)+batch-1)/batch+1)
	var wg sync.WaitGroup
	for w := 0; w < par; w++ {
		wg.Add(1)
		go func() {
			defer wg.Done()
			for j := range jobs {
				in, _ := json.Marshal(specs[j.lo:j.hi])
				ctx, cancel := context.WithTimeout(context.Background(), 10*time.Minute)
				cmd := exec.CommandContext(ctx, exe, "c17t-worker")
				cmd.Stdin = bytes.NewReader(in)
				var stderr bytes.Buffer
				cmd.Stderr = &stderr
				o, err := cmd.Output()
				cancel()
				if err != nil {
					errs <- fmt.Errorf("worker for cases %d-%d: %v: %s", j.lo, j.hi, err, stderr.String())
					continue
				}
				var got []TObs
				if err := json.Unmarshal(o, &got); err != nil || len(got) != j.hi-j.lo {
					errs <- fmt.Errorf("worker for cases %d-%d: bad output (%v)", j.lo, j.hi, err)
					continue
				}
				copy(obs[j.lo:j.hi], got)
			}
		}()
	}
	for lo := 0; lo < len(specs); lo += batch {
		hi := lo + batch
		if hi > len(specs) {
			hi = len(specs)
		}
		jobs <- job{lo, hi}
	}
	close(jobs)
	wg.Wait()
	select {
	case e := <-errs:
		return nil, e
	default:
	}
	return obs, nil
}

// ---- Coq terms ----

func coqQ(num, den string) string {
	if strings.HasPrefix(num, "-") {
		num = "(" + num + ")"
	}
	return "(Qmake " + num + " " + den + ")"
}
func coqVal(trait string, num, den string) string {
	if trait == "onoff" {
		if strings.HasPrefix(num, "-") {
			return "(" + num + ")"
		}
		return num
	}
	return coqQ(num, den)
}
func coqChange(trait string, c TChange) string {
	return coqVal(trait, strconv.FormatInt(c.Num, 10), strconv.FormatInt(c.Den, 10))
}
func coqMembersT(sp TSpec) string {
	it := make([]string, len(sp.Outs))
	for i, o := range sp.Outs {
		it[i] = vcoq.App("mkM", []string{"Ok", "Fail", "FailMsg"}[o], vcoq.Bool(sp.Aware[i]))
	}
	return vcoq.List(it)
}
func coqBools(bs []bool) string {
	it := make([]string, len(bs))
	for i, b := range bs {
		it[i] = vcoq.Bool(b)
	}
	return vcoq.List(it)
}
func coqNats(v []int) string {
	it := make([]string, len(v))
	for i, x := range v {
		it[i] = vcoq.Nat(x)
	}
	return vcoq.List(it)
}

func coqUnary(sp TSpec, ob TObs) string {
	vals := make([]string, len(sp.Vals))
	for i, c := range sp.Vals {
		vals[i] = coqChange(sp.Trait, c)
	}
	tk, vs := "TOnOff", vcoq.App("VOnOff", vcoq.List(vals))
	if sp.Trait == "light" {
		tk, vs = "TLight", vcoq.App("VLight", vcoq.List(vals))
	}
	kind := map[string]int64{"ret": 0, "panic": 1, "hang": 2}[ob.Kind]
	val := "None"
	if ob.HasVal {
		if sp.Trait == "onoff" {
			val = vcoq.Some(vcoq.App("XOnOff", coqVal(sp.Trait, ob.Num, ob.Den)))
		} else {
			val = vcoq.Some(vcoq.App("XLight", coqVal(sp.Trait, ob.Num, ob.Den)))
		}
	}
	obs := vcoq.App("mkUO", vcoq.Z(kind), val, vcoq.Z(ob.Err), vcoq.ListZ(ob.Calls), vcoq.Z(ob.Cancel), vcoq.Z(ob.RetStep),
		vcoq.ListZ(ob.Saw), vcoq.Z(ob.Leak), vcoq.Bool(ob.Names), vcoq.Bool(ob.ReqSame))
	return vcoq.App("KUnary", tk, vcoq.Bool(sp.Write), vcoq.Int(sp.Strategy), coqMembersT(sp), vs, coqNats(sp.Order), obs)
}

func coqPull(sp TSpec, ob TObs) string {
	evs := make([]string, len(ob.Issued))
	for i, ev := range ob.Issued {
		switch ev.Kind {
		case "parent":
			evs[i] = "EParent"
		case "end":
			evs[i] = vcoq.App("EEnd", vcoq.Nat(ev.I))
		default:
			chs := make([]string, len(ev.Changes))
			for k, c := range ev.Changes {
				chs[k] = vcoq.Pair(coqChange(sp.Trait, c), vcoq.Z(c.Time))
			}
			evs[i] = vcoq.App("EMsg", vcoq.Nat(ev.I), vcoq.List(chs))
		}
	}
	sent := make([]string, len(ob.Sent))
	for i, s := range ob.Sent {
		sent[i] = "(" + vcoq.Z(s.Step) + ", " + coqVal(sp.Trait, s.Num, s.Den) + ", " + vcoq.Z(s.Time) + ")"
	}
	ret := ob.RetStep
	if ob.Kind != "ret" {
		ret = -1
	}
	obs := vcoq.App("mkPO", vcoq.List(sent), vcoq.Z(ret), vcoq.Z(ob.Err), vcoq.Z(ob.Cancel), vcoq.ListZ(ob.Saw), vcoq.Z(ob.Leak), vcoq.Bool(ob.Names))
	k := "KPullOnOff"
	if sp.Trait == "light" {
		k = "KPullLight"
	}
	return vcoq.App(k, vcoq.Int(sp.Strategy), coqMembersT(sp), coqBools(sp.Eofs), vcoq.Int(sp.FailAt), vcoq.List(evs), obs)
}

// ---- generation ----

func lightVal(r *vcoq.Rand) TChange {
	if r.Chance(8) {
		// a level whose reductions leave the exact float32 range (judged only on the other fields)
		return TChange{Num: int64(r.Range(1, 1<<23)), Den: 1 << 18}
	}
	return TChange{Num: 105 * int64(r.Range(0, 15)), Den: 16}
}
func onoffVal(r *vcoq.Rand) TChange {
	if r.Chance(5) {
		return TChange{Num: 3, Den: 1}
	}
	return TChange{Num: int64(r.Intn(3)), Den: 1}
}
func genVals(r *vcoq.Rand, trait string, n int) []TChange {
	vals := make([]TChange, n)
	same := r.Chance(20)
	for i := range vals {
		if trait == "onoff" {
			vals[i] = onoffVal(r)
		} else {
			vals[i] = lightVal(r)
		}
		if same && i > 0 {
			vals[i] = vals[0]
		}
	}
	return vals
}
func otherStrategy(r *vcoq.Rand, s int) int {
	for {
		o := r.Range(1, 6)
		if o != s {
			return o
		}
	}
}
func shuffled(r *vcoq.Rand, n int) []int {
	order := make([]int, n)
	for i := range order {
		order[i] = i
	}
	for i := n - 1; i > 0; i-- {
		j := r.Intn(i + 1)
		order[i], order[j] = order[j], order[i]
	}
	return order
}

func genPull(r *vcoq.Rand, trait string) TSpec {
	n := r.Range(1, 4)
	if r.Chance(4) {
		n = 0
	}
	if r.Chance(10) {
		n = r.Range(5, 6)
	}
	strategy := []int{0, 1, 1, 1, 2, 3, 3, 5, 6, 7}[r.Intn(10)]
	if r.Chance(12) {
		// ExecuteOne: the members' streams are opened one after the other; events aimed at a member that is
		// not the running one are never delivered (issue's non-blocking send), so most events follow [cur]
		strategy = 4
	}
	cur := 0
	pick := func() int {
		i := r.Intn(n)
		if strategy == 4 && cur < n && !r.Chance(12) {
			i = cur
		}
		return i
	}
	sp := TSpec{Kind: "pull", Trait: trait, Strategy: strategy, Other: otherStrategy(r, strategy),
		Outs: make([]int, n), Aware: make([]bool, n), Eofs: make([]bool, n), OpenFail: make([]bool, n)}
	for i := 0; i < n; i++ {
		sp.Outs[i] = outFail
		sp.Aware[i] = !r.Chance(15)
		sp.Eofs[i] = r.Chance(15)
		sp.OpenFail[i] = r.Chance(6)
	}
	if r.Chance(25) {
		sp.FailAt = r.Range(1, 4)
	}
	nev := r.Range(2, 14)
	ended := make([]bool, n)
	pool := make([]TChange, 3) // few distinct values: equal reductions happen
	for i := range pool {
		if trait == "onoff" {
			pool[i] = onoffVal(r)
		} else {
			pool[i] = lightVal(r)
		}
	}
	for k := 0; k < nev; k++ {
		c := r.Intn(100)
		switch {
		case c < 4:
			sp.Events = append(sp.Events, TEvent{Kind: "parent"})
		case c < 22 && n > 0:
			i := pick()
			if i == cur {
				cur++
			}
			ended[i] = true
			sp.Events = append(sp.Events, TEvent{Kind: "end", I: i})
		case n > 0:
			i := pick()
			if ended[i] && r.Chance(80) {
				i = pick()
			}
			nch := []int{0, 1, 1, 1, 1, 2, 3}[r.Intn(7)]
			ev := TEvent{Kind: "msg", I: i}
			for j := 0; j < nch; j++ {
				ch := pool[r.Intn(len(pool))]
				if r.Chance(10) {
					if trait == "onoff" {
						ch = onoffVal(r)
					} else {
						ch = lightVal(r)
					}
				}
				if r.Chance(60) {
					ch.Time = int64(r.Range(1, 900))
				}
				ev.Changes = append(ev.Changes, ch)
			}
			sp.Events = append(sp.Events, ev)
		}
	}
	return sp
}

func genC17T(o *vcoq.Out, r *vcoq.Rand, tier string) error {
	o.Header = "From Coq Require Import QArith.\nFrom SC Require Import Base.Prelude Group.Exec Group.C17Judge Group.TraitGroup Group.TraitGroupJudge."
	o.CaseType = "c17tcase"
	o.Judge = "tjudge"
	o.Shard = 300
	o.Rule = "trait groups (onoffpb, lightpb). Unary calls (Get/Update x onoff/light): member counts 0-4 x every success/failure assignment x every completion order, four calls per point with a drawn strategy 0-7 and drawn awareness (all context-ignoring / all cancellation-aware / mixed); random groups of 5-8 members with failure-with-message members. The strategy under test goes into the execution field the call must use, a different one into the other field. Values: onoff states 0-2 (sometimes the unknown number 3), levels k*105/16 (sometimes all equal, sometimes a level that leaves the exact float32 range). Pull: random event scripts (member message with 0-3 changes / stream end / server context cancelled) over 0-6 members, strategies All/Most/Any/Fast/Race/unknown, streams ending with io.EOF, streams failing to open, context-ignoring streams, a scripted failing Send; every script ends with every open stream ended. One event per step, quiescence (stop-the-world stack dump) between steps. Non-trivial: at least 2 members."
	var specs []TSpec
	perTrait := []string{"onoff", "light"}
	// --- unary, exhaustive part
	for n := 0; n <= 4; n++ {
		perms := permutations(n)
		for mask := 0; mask < 1<<n; mask++ {
			outs := make([]int, n)
			for i := 0; i < n; i++ {
				if mask>>i&1 == 1 {
					outs[i] = outFail
				}
			}
			for _, p := range perms {
				for _, trait := range perTrait {
					for _, write := range []bool{false, true} {
						aware := make([]bool, n)
						switch r.Intn(3) {
						case 1:
							for i := range aware {
								aware[i] = true
							}
						case 2:
							for i := range aware {
								aware[i] = r.Bool()
							}
						}
						s := r.Range(0, 7)
						specs = append(specs, TSpec{Kind: "unary", Trait: trait, Write: write, Strategy: s, Other: otherStrategy(r, s),
							Outs: append([]int{}, outs...), Aware: aware, Vals: genVals(r, trait, n), Order: append([]int{}, p...)})
					}
				}
			}
		}
	}
	nrand, npull := 500, 1100
	if tier == "thorough" {
		nrand, npull = 6000, 12000
	}
	for k := 0; k < nrand; k++ {
		n := r.Range(5, 8)
		outs := make([]int, n)
		aware := make([]bool, n)
		pfail := []int{0, 10, 30, 60, 95}[r.Intn(5)]
		for i := range outs {
			if r.Chance(pfail) {
				outs[i] = outFail
				if r.Chance(40) {
					outs[i] = outFailMsg
				}
			}
			aware[i] = r.Chance(50)
		}
		trait := perTrait[r.Intn(2)]
		s := r.Range(0, 7)
		if r.Chance(3) {
			s = []int{-1, 8, 100}[r.Intn(3)]
		}
		specs = append(specs, TSpec{Kind: "unary", Trait: trait, Write: r.Bool(), Strategy: s, Other: otherStrategy(r, s),
			Outs: outs, Aware: aware, Vals: genVals(r, trait, n), Order: shuffled(r, n)})
	}
	for k := 0; k < npull; k++ {
		specs = append(specs, genPull(r, perTrait[k%2]))
	}

	par := runtime.NumCPU()
	if par > 8 {
		par = 8
	}
	obs, err := runBatchesT(specs, 250, par)
	if err != nil {
		return err
	}
	lightCases, lightExact := 0, 0
	for k, sp := range specs {
		ob := obs[k]
		js := map[string]any{"spec": sp, "observed": ob}
		var coq string
		tags := []string{"kind:" + sp.Kind, "trait:" + sp.Trait, fmt.Sprintf("n:%d", len(sp.Outs)), fmt.Sprintf("strategy:%d", sp.Strategy)}
		if sp.Kind == "unary" {
			coq = coqUnary(sp, ob)
			if sp.Write {
				tags = append(tags, "unary:update")
			} else {
				tags = append(tags, "unary:get")
			}
			if ob.HasVal {
				tags = append(tags, "returned-value")
			}
		} else {
			coq = coqPull(sp, ob)
			tags = append(tags, fmt.Sprintf("pull:sent:%d", len(ob.Sent)))
			if sp.FailAt > 0 && len(ob.Sent) >= sp.FailAt {
				tags = append(tags, "pull:send-failed")
			}
			for _, ev := range ob.Issued {
				if ev.Kind == "parent" {
					tags = append(tags, "pull:parent-cancelled")
					break
				}
			}
			if len(ob.Issued) < len(sp.Events) {
				tags = append(tags, "pull:some-events-undeliverable")
			}
		}
		if ob.Err != 0 {
			tags = append(tags, "returned-error")
		}
		if sp.Trait == "light" && (ob.HasVal || len(ob.Sent) > 0) {
			lightCases++
			if ob.Exact {
				lightExact++
				tags = append(tags, "light:float32-exact(estimate)")
			} else {
				tags = append(tags, "light:float32-inexact(estimate)")
			}
		}
		key, _ := json.Marshal(sp)
		o.Add(vcoq.Case{Coq: coq, JSON: js, Key: string(key), NonTrivial: len(sp.Outs) >= 2, Tags: tags})
		what := sp.Trait + " " + sp.Kind
		switch {
		case ob.Kind == "panic":
			o.Directs = append(o.Directs, vcoq.Direct{What: fmt.Sprintf("%s call panicked: %s", what, ob.Panic), Class: "trait-panic", Replay: js})
		case ob.Kind == "hang":
			o.Directs = append(o.Directs, vcoq.Direct{What: what + " call did not return although every member returned", Class: "trait-hang", Replay: js})
		}
		if ob.Leak > 0 && ob.Kind != "hang" {
			o.Directs = append(o.Directs, vcoq.Direct{What: fmt.Sprintf("%s: %d goroutine(s) of pkg/group or the trait package still blocked after the call and every member returned [%s]", what, ob.Leak, ob.Stacks), Class: "trait-goroutine-leak", Replay: js})
		}
		if !ob.Names || !ob.ReqSame {
			o.Directs = append(o.Directs, vcoq.Direct{What: what + ": a member did not get its own clone of the request (wrong name, shared or altered request), or the caller's request was modified, or a sent message does not carry the group's name", Class: "trait-request", Replay: js})
		}
	}
	seen := map[string]int{}
	var ds []vcoq.Direct
	for _, d := range o.Directs {
		seen[d.Class]++
		if seen[d.Class] <= 3 {
			ds = append(ds, d)
		}
	}
	o.Directs = ds
	rate := 1.0
	if lightCases > 0 {
		rate = float64(lightExact) / float64(lightCases)
	}
	o.Extra["trait_float32_guard"] = map[string]any{"light_cases_with_a_value": lightCases, "estimated_exact": lightExact, "estimated_pass_rate": rate,
		"note": "Go-side estimate for statistics; the guard itself (every intermediate exactly representable in float32) is evaluated in Coq"}
	return nil
}
