// Free-running stage of generator C17: the gated driver of c17.go releases one member per step and
// waits for quiescence in between, so it never runs a schedule in which a member goroutine and the
// closer goroutine of executeEach race.  A change such as `all.Done()` moved in front of the send on
// `responses` (the closer may close the channel before the last send: "send on closed channel" in a
// library goroutine, or the caller's range loop ending before the last response) is invisible to it.
//
// Here the real functions run with NO step discipline: every member of a group is released by one
// close(gate), several calls run concurrently on a few Ps, thousands of times per group shape, and
// only schedule-independent facts are checked (context-ignoring members):
//   - a caller that never leaves early (ExecuteUpTo, Execute All/Most/Any) returns a slice holding
//     every member's own message at its own index, and an error only when more members fail than
//     the budget allows, then one of the failing members' errors;
//   - ExecuteFast / ExecuteRace (direct and through Execute) return one member's own response;
//   - no panic anywhere (a panic in a library goroutine kills the subprocess: the parent turns the
//     crash into a Direct carrying the group shape that was running);
//   - every goroutine of pkg/group ends once the calls have returned.
//
// Nothing here depends on timing: on a correct tree every schedule satisfies these facts, so load
// can only reduce the number of trials, never raise an alarm (the only clock is a 60 s give-up per
// call, reported as a hang).
//
// The search is statistical.  Measured on the mutant above (16 cores, load average 17-45): first
// failure after 10-120 ms / a few hundred to ~20 000 trials with GOMAXPROCS >= 2; never with
// GOMAXPROCS = 1 (the closer sits in the member's P's runnext and runs only after the member's send).
package main

import (
	"bufio"
	"bytes"
	"context"
	"encoding/json"
	"fmt"
	"os"
	"os/exec"
	"runtime"
	"sort"
	"strconv"
	"strings"
	"sync"
	"sync/atomic"
	"time"

	"github.com/smart-core-os/sc-golang/pkg/group"
	"github.com/smart-core-os/sc-golang/verifharness/vcoq"
	"google.golang.org/protobuf/proto"
	"google.golang.org/protobuf/types/known/wrapperspb"
)

func init() {
	if len(os.Args) > 1 && os.Args[1] == "c17-free" {
		freeWorker()
		os.Exit(0)
	}
	// "c17-freerun [calls per lane]": every shape of the quick tier, in this process, a few calls each.
	// Meant for a binary built with -race: the runtime instruments close(ch) as a write and ch <- v as a
	// read of the channel, and WaitGroup Done -> Wait is the only edge between a member goroutine and
	// the closer, so a send placed after Done is reported as a DATA RACE on every schedule, also on
	// those where nothing goes wrong (seen with GOMAXPROCS = 1 and 5 calls).
	if len(os.Args) > 1 && os.Args[1] == "c17-freerun" {
		calls := 40
		if len(os.Args) > 2 {
			if v, err := strconv.Atoi(os.Args[2]); err == nil && v > 0 {
				calls = v
			}
		}
		for k, sp := range freeSpecs("quick") {
			sp.Trials, sp.MaxMs = calls, 2000
			os.Stdout.WriteString("S " + strconv.Itoa(k) + "\n")
			ob := freeRun(sp)
			b, _ := json.Marshal(map[string]any{"spec": sp, "obs": ob})
			os.Stdout.WriteString("R " + strconv.Itoa(k) + " " + string(b) + "\n")
		}
		os.Exit(0)
	}
}

// FreeSpec is one group shape run free.
type FreeSpec struct {
	API    string `json:"api"` // upto | execute | fast | race
	Arg    int    `json:"arg"`
	Outs   []int  `json:"outs"`
	Lanes  int    `json:"lanes"`  // concurrent callers
	Procs  int    `json:"procs"`  // GOMAXPROCS of the subprocess while this shape runs
	Trials int    `json:"trials"` // calls per lane, at most
	MaxMs  int    `json:"max_ms"` // stop earlier after this long
}

// FreeObs is what a shape's run reports.
type FreeObs struct {
	Trials int64  `json:"trials"`
	Bad    string `json:"bad,omitempty"`   // first call whose result no schedule of the contract allows
	Class  string `json:"class,omitempty"` // lost-response | wrong-result | panic | hang
	Leak   int64  `json:"leak"`
	Stacks string `json:"stacks,omitempty"`
}

func freeExpected(outs []int, i int) int64 {
	switch outs[i] {
	case outOk:
		return int64(i) + 1
	case outFailMsg:
		return -(int64(i) + 1)
	}
	return 0
}

// freeJudge: is the result one that SOME schedule allows?  "" = yes.
func freeJudge(sp FreeSpec, r callResult) (string, string) {
	n := len(sp.Outs)
	nfail := 0
	for _, o := range sp.Outs {
		if o != outOk {
			nfail++
		}
	}
	isFailErr := func(e int64) bool { return e >= 1 && e <= int64(n) && sp.Outs[e-1] != outOk }
	if r.kind == "panic" {
		return "panic", "the call panicked: " + r.panic
	}
	early := sp.API == "fast" || sp.API == "race" || (sp.API == "execute" && (sp.Arg == 5 || sp.Arg == 6))
	if !early {
		budget := 0
		switch {
		case sp.API == "upto":
			budget = sp.Arg
		case sp.Arg == 2:
			budget = n / 2
		case sp.Arg == 3:
			budget = n - 1
		}
		if len(r.res) != n {
			return "wrong-result", fmt.Sprintf("result slice has %d slots for %d members", len(r.res), n)
		}
		for i := range r.res {
			if got, want := canonMsg(r.res[i]), freeExpected(sp.Outs, i); got != want {
				cl := "wrong-result"
				if got == 0 {
					cl = "lost-response"
				}
				return cl, fmt.Sprintf("slot %d holds %d, member %d (context-ignoring) returned %d: the call returned without its response", i, got, i, want)
			}
		}
		e := canonErr(r.err)
		if nfail > budget && nfail > 0 {
			if !isFailErr(e) {
				return "wrong-result", fmt.Sprintf("%d members fail, budget %d, returned error %d is not a failing member's", nfail, budget, e)
			}
		} else if e != 0 {
			return "wrong-result", fmt.Sprintf("%d members fail, budget %d, yet error %d returned", nfail, budget, e)
		}
		return "", ""
	}
	// early-return callers: one member's own response
	var msg, idx, e int64
	if r.kind == "single" {
		msg, idx, e = canonMsg(r.msg), int64(r.idx), canonErr(r.err)
	} else {
		if len(r.res) != n {
			return "wrong-result", fmt.Sprintf("result slice has %d slots for %d members", len(r.res), n)
		}
		e = canonErr(r.err)
		idx = -1
		for i := range r.res {
			if m := canonMsg(r.res[i]); m != 0 {
				if idx >= 0 {
					return "wrong-result", "two slots populated by a single-result strategy"
				}
				idx, msg = int64(i), m
			}
		}
		if idx < 0 { // no message placed: only legal when the chosen response carried none
			if e == 0 {
				return "lost-response", "no error and no slot populated although every successful member returns a message"
			}
			if !isFailErr(e) {
				return "wrong-result", fmt.Sprintf("error %d is not a failing member's", e)
			}
			return "", ""
		}
	}
	if idx < 0 || idx >= int64(n) {
		return "wrong-result", fmt.Sprintf("index %d out of range", idx)
	}
	fast := sp.API == "fast" || (sp.API == "execute" && sp.Arg == 5)
	if e == 0 {
		if sp.Outs[idx] != outOk || msg != idx+1 {
			return "wrong-result", fmt.Sprintf("no error, index %d, message %d: not member %d's successful response", idx, msg, idx)
		}
		return "", ""
	}
	if e == -1 {
		return "lost-response", "\"no members returned a response\" from a non-empty group whose members all return"
	}
	if !isFailErr(e) {
		return "wrong-result", fmt.Sprintf("error %d is not a failing member's", e)
	}
	if fast && nfail < n {
		return "lost-response", fmt.Sprintf("Fast returned error %d although %d member(s) succeed and all were allowed to finish", e, n-nfail)
	}
	if fast && msg != 0 {
		return "wrong-result", "Fast returned a message together with an error"
	}
	if !fast && r.kind == "single" && (e != idx+1 || msg != freeExpected(sp.Outs, int(idx))) {
		return "wrong-result", fmt.Sprintf("Race: index %d, message %d, error %d are not one member's response", idx, msg, e)
	}
	return "", ""
}

func freeTrial(sp FreeSpec, k int) callResult {
	n := len(sp.Outs)
	gate := make(chan struct{})
	members := make([]group.Member, n)
	for i := 0; i < n; i++ {
		i := i
		members[i] = func(ctx context.Context) (proto.Message, error) {
			<-gate
			switch sp.Outs[i] {
			case outOk:
				return wrapperspb.Int64(int64(i) + 1), nil
			case outFailMsg:
				return wrapperspb.Int64(-(int64(i) + 1)), &memberErr{i}
			}
			return nil, &memberErr{i}
		}
	}
	done := make(chan callResult, 1)
	go func() {
		var r callResult
		defer func() {
			if p := recover(); p != nil {
				r = callResult{kind: "panic", panic: fmt.Sprint(p)}
			}
			done <- r
		}()
		ctx := context.Background()
		switch sp.API {
		case "execute":
			res, err := group.Execute(ctx, group.ExecutionStrategy(sp.Arg), members)
			r = callResult{kind: "slice", res: res, err: err}
		case "upto":
			res, err := group.ExecuteUpTo(ctx, sp.Arg, members)
			r = callResult{kind: "slice", res: res, err: err}
		case "fast":
			m, i, err := group.ExecuteFast(ctx, members)
			r = callResult{kind: "single", msg: m, idx: i, err: err}
		case "race":
			m, i, err := group.ExecuteRace(ctx, members)
			r = callResult{kind: "single", msg: m, idx: i, err: err}
		}
	}()
	if k%2 == 1 {
		runtime.Gosched() // members mostly parked on the gate; otherwise most find it open
	}
	close(gate)
	select {
	case r := <-done:
		return r
	default:
	}
	t := time.NewTimer(60 * time.Second)
	defer t.Stop()
	select {
	case r := <-done:
		return r
	case <-t.C:
		return callResult{kind: "hang"}
	}
}

func freeRun(sp FreeSpec) FreeObs {
	if sp.Procs > 0 {
		runtime.GOMAXPROCS(sp.Procs)
	}
	var ob FreeObs
	var mu sync.Mutex
	var stop atomic.Bool
	var trials atomic.Int64
	deadline := time.Now().Add(time.Duration(sp.MaxMs) * time.Millisecond)
	var wg sync.WaitGroup
	for l := 0; l < sp.Lanes; l++ {
		wg.Add(1)
		go func() {
			defer wg.Done()
			for k := 0; k < sp.Trials && !stop.Load(); k++ {
				r := freeTrial(sp, k)
				trials.Add(1)
				cl, why := "", ""
				if r.kind == "hang" {
					cl, why = "hang", "the call did not return within 60 s although every member was released"
				} else {
					cl, why = freeJudge(sp, r)
				}
				if cl != "" {
					mu.Lock()
					if ob.Class == "" {
						ob.Class, ob.Bad = cl, why
					}
					mu.Unlock()
					stop.Store(true)
					return
				}
				if k%64 == 63 && time.Now().After(deadline) {
					return
				}
			}
		}()
	}
	wg.Wait()
	ob.Trials = trials.Load()
	if ob.Class != "" {
		// tell the parent at once: a member goroutine of the failed call may be about to panic
		b, _ := json.Marshal(ob)
		os.Stdout.WriteString("B " + string(b) + "\n")
	}
	// every call returned and every member was released: the goroutines of pkg/group end by themselves
	end := time.Now().Add(20 * time.Second)
	if ob.Class == "hang" {
		end = time.Now().Add(time.Second)
	}
	for {
		var desc []string
		for _, g := range snapshot() {
			if g.group {
				desc = append(desc, g.status)
			}
		}
		ob.Leak = int64(len(desc))
		if len(desc) == 0 {
			ob.Stacks = ""
			break
		}
		sort.Strings(desc)
		ob.Stacks = strings.Join(desc, ",")
		if time.Now().After(end) {
			break
		}
		time.Sleep(500 * time.Microsecond)
	}
	return ob
}

// freeWorker: specs on stdin; on stdout, unbuffered, "S k" when shape k starts, "B json" as soon as a
// call misbehaved, "R k json" when shape k is over.  A crash leaves an "S k" without its "R k".
func freeWorker() {
	var specs []FreeSpec
	if err := json.NewDecoder(bufio.NewReader(os.Stdin)).Decode(&specs); err != nil {
		fmt.Fprintln(os.Stderr, "c17 free worker:", err)
		os.Exit(2)
	}
	for k, sp := range specs {
		os.Stdout.WriteString("S " + strconv.Itoa(k) + "\n")
		ob := freeRun(sp)
		b, _ := json.Marshal(ob)
		os.Stdout.WriteString("R " + strconv.Itoa(k) + " " + string(b) + "\n")
	}
}

func freeSpecs(tier string) []FreeSpec {
	trials, ms := 3000, 150
	if tier == "thorough" {
		trials, ms = 20000, 1000
	}
	var out []FreeSpec
	add := func(api string, arg int, outs []int, lanes, procs int) {
		out = append(out, FreeSpec{API: api, Arg: arg, Outs: outs, Lanes: lanes, Procs: procs, Trials: trials, MaxMs: ms})
	}
	for _, n := range []int{1, 2, 3, 5, 8} {
		ok := make([]int, n)
		mixed := make([]int, n)
		for i := range mixed {
			mixed[i] = []int{outOk, outFail, outFailMsg}[i%3]
		}
		add("upto", n, ok, 2, 4)
		add("execute", 1, ok, 4, 4)
		add("fast", 0, ok, 2, 4)
		add("race", 0, ok, 4, 8)
		add("execute", 5, ok, 2, 2)
		add("execute", 6, ok, 2, 4)
		if n >= 2 {
			add("upto", n, mixed, 2, 4)    // nobody is cancelled: every slot known
			add("execute", 2, mixed, 4, 4) // Most
			add("execute", 3, mixed, 2, 8) // Any
			add("race", 0, mixed, 2, 4)
			add("fast", 0, mixed, 2, 2)
		}
	}
	return out
}

// runFree runs the shapes in `par` subprocesses and turns misbehaviour into Directs.
func runFree(tier string, par int) ([]vcoq.Direct, map[string]any, error) {
	specs := freeSpecs(tier)
	t0 := time.Now()
	exe, err := os.Executable()
	if err != nil {
		return nil, nil, err
	}
	if par < 1 {
		par = 1
	}
	type res struct {
		directs []vcoq.Direct
		trials  int64
		shapes  int
		err     error
	}
	results := make([]res, par)
	var wg sync.WaitGroup
	for w := 0; w < par; w++ {
		var mine []FreeSpec
		for k := w; k < len(specs); k += par {
			mine = append(mine, specs[k])
		}
		wg.Add(1)
		go func(w int, mine []FreeSpec) {
			defer wg.Done()
			r := &results[w]
			for len(mine) > 0 && len(r.directs) < 6 {
				in, _ := json.Marshal(mine)
				ctx, cancel := context.WithTimeout(context.Background(), 10*time.Minute)
				cmd := exec.CommandContext(ctx, exe, "c17-free")
				cmd.Stdin = bytes.NewReader(in)
				var stderr bytes.Buffer
				cmd.Stderr = &stderr
				o, runErr := cmd.Output()
				cancel()
				cur, finished := -1, -1
				for _, line := range strings.Split(string(o), "\n") {
					f := strings.SplitN(line, " ", 3)
					switch {
					case f[0] == "S" && len(f) >= 2:
						cur, _ = strconv.Atoi(f[1])
					case f[0] == "B" && len(f) >= 2 && cur >= 0 && cur < len(mine):
						var ob FreeObs
						if json.Unmarshal([]byte(strings.TrimPrefix(line, "B ")), &ob) == nil {
							r.directs = append(r.directs, vcoq.Direct{
								What:   "free-running group call (all members released at once, no step discipline): " + ob.Bad,
								Class:  ob.Class,
								Replay: map[string]any{"free_spec": mine[cur], "after_trials": ob.Trials, "mode": "c17-free"}})
						}
					case f[0] == "R" && len(f) == 3:
						var ob FreeObs
						k, _ := strconv.Atoi(f[1])
						if json.Unmarshal([]byte(f[2]), &ob) == nil && k >= 0 && k < len(mine) {
							finished = k
							r.trials += ob.Trials
							r.shapes++
							if ob.Leak > 0 {
								r.directs = append(r.directs, vcoq.Direct{
									What:   fmt.Sprintf("free-running group calls: %d goroutine(s) of pkg/group still alive 20 s after every call returned and every member was released [%s]", ob.Leak, ob.Stacks),
									Class:  "goroutine-leak",
									Replay: map[string]any{"free_spec": mine[k], "after_trials": ob.Trials, "mode": "c17-free"}})
							}
						}
					}
				}
				if runErr == nil {
					return
				}
				// the subprocess died: a panic in a goroutine of the code under test is a result, anything else a harness error
				es := stderr.String()
				if cur < 0 || cur >= len(mine) || cur <= finished || !strings.Contains(es, "panic: ") || !strings.Contains(es, "sc-golang/pkg/group.") {
					r.err = fmt.Errorf("free-running worker: %v: %.2000s", runErr, es)
					return
				}
				var lines []string
				for _, l := range strings.Split(es, "\n") {
					if l = strings.TrimSpace(l); l != "" && len(lines) < 8 {
						lines = append(lines, l)
					}
				}
				r.directs = append(r.directs, vcoq.Direct{
					What:   "free-running group call (all members released at once, no step discipline): a goroutine of pkg/group panicked and took the process down: " + strings.Join(lines, " | "),
					Class:  "panic",
					Replay: map[string]any{"free_spec": mine[cur], "mode": "c17-free"}})
				mine = mine[cur+1:]
			}
		}(w, mine)
	}
	wg.Wait()
	var ds []vcoq.Direct
	var trials int64
	shapes := 0
	for _, r := range results {
		if r.err != nil {
			return nil, nil, r.err
		}
		ds = append(ds, r.directs...)
		trials += r.trials
		shapes += r.shapes
	}
	info := map[string]any{"shapes": len(specs), "shapes_completed": shapes, "calls": trials, "subprocesses": par, "elapsed_ms": time.Since(t0).Milliseconds(),
		"what": "no step discipline: all members released by one close, 2-4 concurrent callers, GOMAXPROCS 2-8; schedule-independent facts only (every response received / one member's own response, no panic, no goroutine left)"}
	return ds, info, nil
}
