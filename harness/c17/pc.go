// Generator C17P: group calls whose PARENT context is cancelled from outside — before the call,
// or between any two member releases — with context-ignoring and cancellation-aware members.
// Same driver as C17 (runOne): one event per step, quiescence in between; members that saw their
// context cancelled return one at a time in index order (second gate), so a run is a deterministic
// function of (api, members, pre, events).  Compared in Coq with the event model Group/ExecPc.v
// (pagrees) and with the closed-form contract of Group/C17PJudge.v (C17P_ok).
package main

import (
	"encoding/json"
	"fmt"
	"runtime"

	"github.com/smart-core-os/sc-golang/verifharness/vcoq"
	"github.com/smart-core-os/sc-golang/verifharness/vh"
)

func init() { vh.Register("C17P", genC17P) }

func coqEvents(sp Spec) string {
	it := make([]string, len(sp.Events))
	for i, e := range sp.Events {
		if e < 0 {
			it[i] = "EPar"
		} else {
			it[i] = vcoq.App("ERel", vcoq.Nat(e))
		}
	}
	return vcoq.List(it)
}

func genC17P(o *vcoq.Out, r *vcoq.Rand, tier string) error {
	o.Header = "From SC Require Import Base.Prelude Group.Exec Group.C17Judge Group.ExecPc Group.C17PJudge."
	o.CaseType = "c17pcase"
	o.Judge = "pjudge"
	o.Shard = 500
	o.Rule = "parent context cancelled from outside. exhaustive: member counts 0-3 x outcomes {ok,fail}^n x every release order x the parent cancelled before the call or after 0..n releases x awareness (none, all, one random mix) x APIs drawn from Execute 0-7, ExecuteUpTo -1..n+1, ExecuteOne/Fast/Race; n = 4: every outcome assignment x every order x every cancellation point with random awareness and 2 drawn APIs; random: 5-7 members with failures carrying a message; a few event lists with two parent cancellations or none (outside the contract's guard: compared with the model only). Members that saw their context cancelled return one at a time in index order. Non-trivial: at least 2 members and the parent cancellation reached at least one running cancellation-aware member. Distinct by the full input. || scripted responses (KSeq): context-ignoring members returning arbitrary (message, error) pairs from {own message, nil message with nil error, a message shared by members} x {nil, own error, one of two error VALUES shared by members, errors.Is-equal but distinct errors}: n = 1-2 all scripts x all orders x 8 APIs, n = 3 all scripts x 2 drawn (order, API), random n = 4-7; the returned value is compared with the fold of the model's recv over the sequence (agrees) and with the closed-form law (C17P_ok)."
	type apiSel2 = apiSel
	var specs []Spec
	add := func(a apiSel2, outs []int, aware []bool, pre bool, events []int) {
		specs = append(specs, Spec{API: a.api, Arg: a.arg, Outs: append([]int{}, outs...),
			Aware: append([]bool{}, aware...), Order: []int{}, Pre: pre, Events: append([]int{}, events...)})
	}
	drawAPI := func(n int) apiSel2 {
		switch r.Intn(12) {
		case 0:
			return apiSel2{"one", 0}
		case 1:
			return apiSel2{"fast", 0}
		case 2:
			return apiSel2{"race", 0}
		case 3, 4:
			return apiSel2{"upto", r.Range(-1, n+1)}
		default:
			return apiSel2{"execute", r.Range(0, 7)}
		}
	}
	withPar := func(p []int, at int) []int { // parent cancellation after `at` releases
		ev := make([]int, 0, len(p)+1)
		ev = append(ev, p[:at]...)
		ev = append(ev, -1)
		ev = append(ev, p[at:]...)
		return ev
	}
	maxN, napi := 3, 4
	for n := 0; n <= 4; n++ {
		perms := permutations(n)
		for mask := 0; mask < 1<<n; mask++ {
			outs := make([]int, n)
			for i := 0; i < n; i++ {
				if mask>>i&1 == 1 {
					outs[i] = outFail
				}
			}
			for _, p := range perms {
				var awares [][]bool
				mixed := make([]bool, n)
				for i := range mixed {
					mixed[i] = r.Bool()
				}
				if n <= maxN {
					all := make([]bool, n)
					for i := range all {
						all[i] = true
					}
					awares = [][]bool{make([]bool, n), all, mixed}
				} else {
					awares = [][]bool{mixed}
				}
				for _, aw := range awares {
					k := napi
					if n > maxN {
						k = 1
					}
					if tier == "thorough" {
						k *= 3
					}
					for at := -1; at <= n; at++ { // -1: cancelled before the call
						for j := 0; j < k; j++ {
							a := drawAPI(n)
							if at < 0 {
								add(a, outs, aw, true, p)
							} else {
								add(a, outs, aw, false, withPar(p, at))
							}
						}
					}
				}
			}
		}
	}
	nrand := 600
	if tier == "thorough" {
		nrand = 8000
	}
	for k := 0; k < nrand; k++ {
		n := r.Range(5, 7)
		if r.Chance(10) {
			n = r.Range(1, 4)
		}
		outs := make([]int, n)
		aware := make([]bool, n)
		pfail := []int{10, 30, 50, 70, 95}[r.Intn(5)]
		for i := range outs {
			if r.Chance(pfail) {
				outs[i] = outFail
				if r.Chance(30) {
					outs[i] = outFailMsg
				}
			}
			aware[i] = r.Chance(60)
		}
		order := make([]int, n)
		for i := range order {
			order[i] = i
		}
		for i := n - 1; i > 0; i-- {
			j := r.Intn(i + 1)
			order[i], order[j] = order[j], order[i]
		}
		a := drawAPI(n)
		switch {
		case r.Chance(4): // two parent cancellations: outside the guard
			ev := withPar(order, r.Intn(n+1))
			ev = append(ev, -1)
			add(a, outs, aware, false, ev)
		case r.Chance(3): // cancelled before the call and again later
			add(a, outs, aware, true, withPar(order, r.Intn(n+1)))
		case r.Chance(15):
			add(a, outs, aware, true, order)
		default:
			add(a, outs, aware, false, withPar(order, r.Intn(n+1)))
		}
	}

	// ---- scripted responses (KSeq): arbitrary (message, error) pairs, context-ignoring members ----
	nEv := len(specs)
	kinds := func(i int) [][2]int64 {
		m := int64(i) + 1
		return [][2]int64{{m, 0}, {0, 0}, {0, 500}, {0, 501}, {0, m}, {77, 500}, {77, 0}, {0, 600 + m}}
	}
	seqAPIs := []apiSel2{{"upto", 0}, {"upto", 1}, {"fast", 0}, {"race", 0}, {"execute", 2}, {"execute", 3}, {"execute", 5}, {"execute", 6}}
	addSeq := func(a apiSel2, script [][2]int64, order []int) {
		n := len(script)
		specs = append(specs, Spec{API: a.api, Arg: a.arg, Outs: make([]int, n), Aware: make([]bool, n),
			Order: append([]int{}, order...), Script: append([][2]int64{}, script...)})
	}
	for n := 1; n <= 3; n++ {
		perms := permutations(n)
		idx := make([]int, n)
		for {
			script := make([][2]int64, n)
			for i := range script {
				script[i] = kinds(i)[idx[i]]
			}
			if n <= 2 {
				for _, p := range perms {
					for _, a := range seqAPIs {
						addSeq(a, script, p)
					}
				}
			} else {
				for j := 0; j < 2; j++ {
					addSeq(seqAPIs[r.Intn(len(seqAPIs))], script, perms[r.Intn(len(perms))])
				}
			}
			k := 0
			for k < n {
				idx[k]++
				if idx[k] < len(kinds(0)) {
					break
				}
				idx[k] = 0
				k++
			}
			if k == n {
				break
			}
		}
	}
	nseq := 300
	if tier == "thorough" {
		nseq = 4000
	}
	for k := 0; k < nseq; k++ {
		n := r.Range(4, 7)
		script := make([][2]int64, n)
		order := make([]int, n)
		for i := range script {
			ks := kinds(i)
			script[i] = ks[r.Intn(len(ks))]
			order[i] = i
		}
		for i := n - 1; i > 0; i-- {
			j := r.Intn(i + 1)
			order[i], order[j] = order[j], order[i]
		}
		a := seqAPIs[r.Intn(len(seqAPIs))]
		if a.api == "upto" {
			a.arg = r.Range(-1, n)
		}
		addSeq(a, script, order)
	}

	par := runtime.NumCPU()
	if par > 8 {
		par = 8
	}
	obs, err := runBatches(specs, 250, par)
	if err != nil {
		return err
	}
	guardOK := 0
	for k, sp := range specs {
		ob := obs[k]
		js := map[string]any{"spec": sp, "observed": ob}
		if k >= nEv {
			n := len(sp.Script)
			it := make([]string, n)
			shared, nilok := map[int64]int{}, false
			for j, i := range sp.Order {
				it[j] = vcoq.App("mkR", vcoq.Nat(i), vcoq.Z(sp.Script[i][0]), vcoq.Z(sp.Script[i][1]))
				if e := sp.Script[i][1]; e >= 600 {
					shared[600]++
				} else if e >= 500 {
					shared[e]++
				}
				if sp.Script[i] == [2]int64{0, 0} {
					nilok = true
				}
			}
			coq := vcoq.App("KSeq", coqAPI(sp), vcoq.Nat(n), vcoq.List(it), coqRet(ob))
			tags := []string{"api:" + sp.API, fmt.Sprintf("n:%d", n), "kind:scripted", "guard:pass", "model-branch:scripted-sequence"}
			guardOK++
			for _, c := range shared {
				if c >= 2 {
					tags = append(tags, "same-error-from-several-members")
					break
				}
			}
			if nilok {
				tags = append(tags, "success-with-nil-message")
			}
			key, _ := json.Marshal(sp)
			o.Add(vcoq.Case{Coq: coq, JSON: js, Key: string(key), NonTrivial: n >= 2, Tags: tags})
			if ob.Kind == "panic" || ob.Kind == "hang" || ob.Leak > 0 {
				o.Directs = append(o.Directs, vcoq.Direct{What: fmt.Sprintf("group call on scripted responses: %s, %d goroutine(s) left [%s %s]", ob.Kind, ob.Leak, ob.Panic, ob.Stacks), Class: map[bool]string{true: "goroutine-leak", false: ob.Kind}[ob.Leak > 0 && ob.Kind != "panic" && ob.Kind != "hang"], Replay: js})
			}
			o.Directs = append(o.Directs, extraDirects(ob, js)...)
			continue
		}
		coq := vcoq.App("KEv", coqAPI(sp), coqMembers(sp), vcoq.Bool(sp.Pre), coqEvents(sp), coqObs(ob))
		npar, tp := 0, int64(0)
		if sp.Pre {
			npar++
		}
		for i, e := range sp.Events {
			if e < 0 {
				npar++
				if npar == 1 {
					tp = int64(i) + 1
				}
			}
		}
		tags := []string{"api:" + sp.API, fmt.Sprintf("n:%d", len(sp.Outs))}
		if sp.API == "execute" {
			tags = append(tags, fmt.Sprintf("strategy:%d", sp.Arg))
		}
		if npar == 1 {
			guardOK++
			tags = append(tags, "guard:pass")
		} else {
			tags = append(tags, "guard:outside")
		}
		switch {
		case sp.Pre:
			tags = append(tags, "parent:before-call")
		case tp == 1:
			tags = append(tags, "parent:before-first-release")
		case tp == int64(len(sp.Events)):
			tags = append(tags, "parent:after-last-release")
		default:
			tags = append(tags, "parent:between-releases")
		}
		flushed := 0
		if ob.Cancel == tp {
			for _, s := range ob.Saw {
				if s == tp {
					flushed++
				}
			}
			if flushed > 0 {
				tags = append(tags, "model-branch:parent-cancel-flushes")
				if flushed > 1 {
					tags = append(tags, "flushed>=2")
				}
			} else {
				tags = append(tags, "model-branch:parent-cancel-nobody-to-flush")
			}
		} else {
			tags = append(tags, "model-branch:parent-cancel-after-own-cancel-or-return")
		}
		if ob.Err >= 1000 {
			tags = append(tags, "returned-context-error")
		} else if ob.Err != 0 {
			tags = append(tags, "returned-member-error")
		}
		if ob.RetStep >= 0 && ob.RetStep < int64(len(sp.Events)) {
			tags = append(tags, "returned-before-last-event")
		}
		key, _ := json.Marshal(sp)
		o.Add(vcoq.Case{Coq: coq, JSON: js, Key: string(key), NonTrivial: len(sp.Outs) >= 2 && flushed > 0, Tags: tags})
		switch {
		case ob.Kind == "panic":
			o.Directs = append(o.Directs, vcoq.Direct{What: fmt.Sprintf("group call panicked: %s", ob.Panic), Class: "panic", Replay: js})
		case ob.Kind == "hang":
			o.Directs = append(o.Directs, vcoq.Direct{What: "group call did not return although every member returned", Class: "hang", Replay: js})
		}
		if ob.Leak > 0 {
			o.Directs = append(o.Directs, vcoq.Direct{What: fmt.Sprintf("%d goroutine(s) of pkg/group still blocked after every member returned [%s]", ob.Leak, ob.Stacks), Class: "goroutine-leak", Replay: js})
		}
		o.Directs = append(o.Directs, extraDirects(ob, js)...)
	}
	seen := map[string]int{}
	var ds []vcoq.Direct
	for _, d := range o.Directs {
		seen[d.Class]++
		if seen[d.Class] <= 3 {
			ds = append(ds, d)
		}
	}
	o.Directs = ds
	o.Extra["coverage_extra"] = map[string]any{"guard_pass": guardOK, "cases": len(specs),
		"guard": "exactly one parent cancellation (before the call or as one event) and every member released exactly once"}
	return nil
}
