// Package vh is the shared main of the correspondence harness binaries (one per property group):
// `<bin> <property> -seed N -tier quick|thorough -out DIR`
// runs the implementation in /repo's working tree on generated inputs and writes, for the Coq
// side, the inputs together with what was observed.
package vh

import (
	"flag"
	"fmt"
	"os"
	"sort"

	"github.com/smart-core-os/sc-golang/verifharness/vcoq"
)

type GenFunc func(o *vcoq.Out, r *vcoq.Rand, tier string) error

var registry = map[string]GenFunc{}

// Register adds the generator of one property.
func Register(id string, f GenFunc) { registry[id] = f }

// RegisterTranslator adds a translator that (re)generates one or more coq/theories/Gen/*.v files.
func RegisterTranslator(name string, f func(outDir string) error) { translators[name] = f }

// translators regenerate coq/theories/Gen/*.v from the working tree on every run
var translators = map[string]func(outDir string) error{}

func Main() {
	if len(os.Args) < 2 {
		usage()
	}
	id := os.Args[1]
	if id == "gen" {
		fs := flag.NewFlagSet(id, flag.ExitOnError)
		out := fs.String("out", "", "output directory for Gen/*.v")
		fs.Parse(os.Args[2:])
		for name, g := range translators {
			if err := g(*out); err != nil {
				fmt.Fprintln(os.Stderr, "translator", name, "failed:", err)
				os.Exit(2)
			}
		}
		return
	}
	fs := flag.NewFlagSet(id, flag.ExitOnError)
	seed := fs.Uint64("seed", 1, "PRNG seed")
	tier := fs.String("tier", "quick", "quick|thorough")
	out := fs.String("out", "", "output directory")
	replay := fs.String("replay", "", "replay file")
	fs.Parse(os.Args[2:])
	f, ok := registry[id]
	if !ok {
		usage()
	}
	_ = replay
	o := &vcoq.Out{Dir: *out, Prop: id, Seed: *seed, Tier: *tier, Extra: map[string]any{}}
	if err := f(o, vcoq.NewRand(*seed), *tier); err != nil {
		fmt.Fprintln(os.Stderr, "harness error:", err)
		os.Exit(2)
	}
	if err := o.Flush(); err != nil {
		fmt.Fprintln(os.Stderr, "harness error:", err)
		os.Exit(2)
	}
}

func usage() {
	ids := make([]string, 0, len(registry))
	for k := range registry {
		ids = append(ids, k)
	}
	sort.Strings(ids)
	fmt.Fprintln(os.Stderr, "usage: vh <id> -seed N -tier quick|thorough -out DIR; ids:", ids)
	os.Exit(2)
}
