package main

// Reader paces of a subscription without backpressure: receive some / pause / resume.
//
// ONE writer issues n calls over two or three ids, each call running from its first step to its
// return before anything else happens (the interleavings of the writers' own steps are the
// subject of the other families); the subscription's own step(s) and k receives of its consumer
// are placed at EVERY position among the calls, k = 0 .. (seeds + calls).  So the consumer has
// been handed an id's change (or not), pauses while other ids' changes queue up in
// mergeCollectionExcess / Pull's goroutine / PullID's goroutine, an id it has already heard about is
// written again -- possibly for the last time --, and it resumes (or only catches up at the end).
// Every change received is compared with Conc/LossyPipe.v, the fold of all of them with the final
// List (resp. PullID: closed, or the last value is the item's).
//
// Lesson of seeded change C03-r4-4 (the merging stage indexed the waiting messages by id and kept the
// entry of a message it had handed on: the next change of that id arriving while ANOTHER id was waiting
// was merged with nothing and never queued): with 0-3 receives placed among concurrent steps of at most
// two ids' writers, "told about x, pause, y waiting, x written for the last time" was never generated.

import (
	"fmt"
	"strings"

	"github.com/smart-core-os/sc-golang/verifharness/vcoq"
)

// paceCall: a call of the one writer on any id
func paceCall(op string, id string, t int, base int64) *fcall {
	switch op {
	case "add":
		return &fcall{kind: kAdd, id: id, msg: fmsg{base + 10 + int64(t), 0, 0}, o: &fwo{}, name: "add"}
	case "upsert":
		return &fcall{kind: kUpdate, id: id, msg: fmsg{base + 20 + int64(t), 0, 0}, o: &fwo{create: true}, name: "upsert"}
	case "upsert-b": // writes field b only (a masked reader sees no difference in field a)
		return &fcall{kind: kUpdate, id: id, msg: fmsg{0, base + 50 + int64(t), 0}, o: &fwo{create: true, hasUpdate: true, update: []fld{fb}}, name: "upsert-b"}
	case "delta":
		return &fcall{kind: kUpdate, id: id, msg: fmsg{base + 1 + int64(t), 0, 0}, o: &fwo{create: true, before: &icpt{kind: 0, f: fa}}, name: "upsert-delta"}
	case "delete":
		return &fcall{kind: kDelete, id: id, o: &fwo{allowMissing: true}, name: "delete-allow-missing"}
	}
	panic("no pace op " + op)
}

// interleavings of n writer tokens (0..n-1 in this order) and m tokens of the subscriber thread s
func paceOrders(n, m, s int) [][]int {
	var out [][]int
	var rec func(w, x int, cur []int)
	rec = func(w, x int, cur []int) {
		if w == n && x == m {
			out = append(out, append([]int{}, cur...))
			return
		}
		if x < m {
			rec(w, x+1, append(cur, s))
		}
		if w < n {
			rec(w+1, x, append(cur, w))
		}
	}
	rec(0, 0, nil)
	return out
}

// runPaced executes the macro schedule `order`: an entry naming a writer thread lets it run until it has
// returned; an entry naming the subscriber thread is ONE step of it (its own step(s) first, then one
// receive of its consumer each)
func runPaced(sc *scenario, order []int, s int) *runResult {
	pos := 0
	cur := -1
	return runSchedule(sc, nil, func(alive []int) int {
		in := func(t int) bool {
			for _, a := range alive {
				if a == t {
					return true
				}
			}
			return false
		}
		for {
			if cur >= 0 && in(cur) {
				return cur
			}
			cur = -1
			if pos >= len(order) {
				return alive[0]
			}
			t := order[pos]
			pos++
			if !in(t) {
				continue
			}
			if t != s {
				cur = t
			}
			return t
		}
	})
}

type paceSpec struct {
	present bool        // the collection holds a (and b) before
	calls   [][2]string // op, id
	pid     bool
	ro      int
	maxRecv int
}

func (ps paceSpec) scenario(base int64, k int) (*scenario, int) {
	sc := &scenario{cinit: collInit(ps.present)}
	names := []string{}
	for t, c := range ps.calls {
		sc.prog = append(sc.prog, paceCall(c[0], c[1], t, base))
		names = append(names, c[0]+":"+c[1])
	}
	ro := roVariants[ps.ro]
	sub := &fcall{kind: kSubL, ro: &ro, name: "pull-lossy", pid: ps.pid, nrecv: k}
	if ps.pid {
		sub.id, sub.name = "a", "pull-id-lossy"
	}
	sc.prog = append(sc.prog, sub)
	sc.tags = []string{"lossy", "lossy-pace", fmt.Sprintf("lossy-pull-id:%v", ps.pid), fmt.Sprintf("lossy-reader-steps:%d", k),
		fmt.Sprintf("pace-calls:%d", len(ps.calls)), "pace-writer:" + strings.Join(names, ",")}
	return sc, len(ps.calls)
}

func genPaces(o *vcoq.Out, r *vcoq.Rand, tier string, base int64) {
	specs := []paceSpec{
		// told about a, b waiting, a removed (its last change)
		{present: false, calls: [][2]string{{"add", "a"}, {"upsert-b", "b"}, {"delete", "a"}}, maxRecv: 4},
		// the demonstration's shape: three ids, the first one written again after two others
		{present: false, calls: [][2]string{{"add", "a"}, {"add", "c"}, {"upsert-b", "b"}, {"upsert", "a"}}, maxRecv: 4},
		// two ids the seed holds, written alternately
		{present: true, calls: [][2]string{{"upsert", "a"}, {"upsert-b", "b"}, {"delta", "a"}, {"delete", "b"}}, maxRecv: 4},
		// delete / re-add of an id while another id is waiting
		{present: true, calls: [][2]string{{"delete", "a"}, {"upsert", "c"}, {"add", "a"}, {"delete", "c"}}, ro: 1, maxRecv: 4},
		// updates-only (no seeds: the pipeline is idle from the start)
		{present: true, calls: [][2]string{{"upsert", "a"}, {"upsert-b", "b"}, {"upsert", "a"}}, ro: 2, maxRecv: 3},
		// PullID over the pipeline: its goroutine holds one more change
		{present: true, pid: true, calls: [][2]string{{"upsert", "a"}, {"upsert-b", "b"}, {"delta", "a"}}, maxRecv: 3},
		{present: false, pid: true, calls: [][2]string{{"add", "a"}, {"add", "c"}, {"upsert", "a"}, {"delete", "a"}}, maxRecv: 3},
	}
	for _, ps := range specs {
		maxRecv := ps.maxRecv
		if tier == "thorough" {
			maxRecv = len(ps.calls) + 3
		}
		for k := 0; k <= maxRecv; k++ {
			own := 1
			if ps.pid {
				own = 2
			}
			sc0, n := ps.scenario(base, k)
			for _, order := range paceOrders(n, own+k, n) {
				sc, _ := ps.scenario(base, k) // fresh calls: exec records into them
				sc.tags = sc0.tags
				rr := runPaced(sc, order, n)
				emitCase(o, sc, rr, []string{"paced"})
			}
		}
	}
	// sampled: 3-6 calls over three ids, any read options, Pull or PullID, a random pace
	ns := 150
	if tier == "thorough" {
		ns = 3000
	}
	ops := []string{"add", "upsert", "upsert-b", "delta", "delete"}
	ids := []string{"a", "b", "c"}
	for i := 0; i < ns; i++ {
		ps := paceSpec{present: r.Bool(), pid: r.Chance(30), ro: r.Intn(len(roVariants))}
		n := 3 + r.Intn(4)
		for t := 0; t < n; t++ {
			ps.calls = append(ps.calls, [2]string{ops[r.Intn(len(ops))], ids[r.Intn(len(ids))]})
		}
		k := r.Intn(n + 3)
		own := 1
		if ps.pid {
			own = 2
		}
		// a random interleaving of the n calls and the own+k subscriber entries
		var order []int
		wl, xl := n, own+k
		for wl+xl > 0 {
			if r.Intn(wl+xl) < xl {
				order = append(order, n)
				xl--
			} else {
				order = append(order, n-wl)
				wl--
			}
		}
		sc, _ := ps.scenario(base, k)
		sc.tags = []string{"lossy", "lossy-pace", "lossy-pace-sampled", fmt.Sprintf("lossy-pull-id:%v", ps.pid), fmt.Sprintf("lossy-reader-steps:%d", k), fmt.Sprintf("pace-calls:%d", n)}
		rr := runPaced(sc, order, n)
		emitCase(o, sc, rr, []string{"paced"})
	}
}
