package main

// Subscribers without backpressure whose consumer receives at chosen points of the schedule.
//
// Between the bus and the consumer of such a subscription there is a chain of free-running goroutines
// (changesAfter, mergeCollectionExcess, Pull's goroutine, PullID's goroutine).  What the consumer is
// offered at a given moment is determined once every one of them is blocked on a channel operation
// (Conc/LossyPipe.v: "every goroutine of the chain runs until it blocks").  That moment is observed,
// not waited for: runtime.Stack stops the world and reports the wait state of every goroutine; if
// every goroutine running library or harness code other than the caller is blocked, nothing can
// happen until the caller acts (a sender and a receiver blocked on the same channel cannot coexist).

import (
	"bytes"
	"fmt"
	"runtime"
	"sort"
	"time"
)

var stackBuf = make([]byte, 1<<20)

// quiescent reports whether every goroutine that runs code of pkg/resource, internal/minibus or
// this harness, other than the calling one, is blocked on a channel or lock operation.
func quiescent() bool {
	var n int
	for {
		n = runtime.Stack(stackBuf, true)
		if n < len(stackBuf) {
			break
		}
		stackBuf = make([]byte, 2*len(stackBuf))
	}
	blocks := bytes.Split(stackBuf[:n], []byte("\n\n"))
	for i, b := range blocks {
		if i == 0 {
			continue // the caller
		}
		if !bytes.HasPrefix(b, []byte("goroutine ")) {
			continue
		}
		if !(bytes.Contains(b, []byte("sc-golang/pkg/resource.")) || bytes.Contains(b, []byte("sc-golang/internal/minibus.")) ||
			bytes.Contains(b, []byte("\nmain.")) || bytes.Contains(b, []byte("created by main."))) {
			continue
		}
		lb, rb := bytes.IndexByte(b, '['), bytes.IndexByte(b, ']')
		if lb < 0 || rb < lb {
			return false
		}
		state := b[lb+1 : rb]
		if c := bytes.IndexByte(state, ','); c >= 0 {
			state = state[:c]
		}
		switch {
		case bytes.HasPrefix(state, []byte("chan receive")), bytes.HasPrefix(state, []byte("chan send")),
			bytes.HasPrefix(state, []byte("select")), bytes.HasPrefix(state, []byte("sync.")):
		case bytes.HasPrefix(state, []byte("semacquire")):
			// parked on a sync primitive of the code under test -- not on a runtime-internal semaphore (a goroutine
			// whose allocation starts a GC cycle shows as "semacquire" too while the stop-the-world dump is taken,
			// and goes on running a moment later: seen by the C17 harness, the cause of a load flake here)
			if !bytes.Contains(b, []byte("sync.runtime_Semacquire")) && !bytes.Contains(b, []byte("sync.(*")) {
				return false
			}
		default:
			return false // running, runnable, syscall, sleep, ...
		}
	}
	return true
}

// settle returns once the pipelines have come to rest
func settle() error {
	deadline := time.Now().Add(stepTimeout)
	for i := 0; ; i++ {
		if quiescent() {
			// at rest means: two consecutive looks, a yield apart, both find every goroutine parked
			runtime.Gosched()
			if quiescent() {
				return nil
			}
		}
		if time.Now().After(deadline) {
			return fmt.Errorf("the goroutines of the subscription pipelines did not come to rest within %v", stepTimeout)
		}
		if i < 50 {
			runtime.Gosched()
		} else {
			time.Sleep(50 * time.Microsecond)
		}
	}
}

func (w *world) hasLossy() bool {
	w.mu.Lock()
	defer w.mu.Unlock()
	return len(w.lossyC)+len(w.lossyV) > 0
}

func (w *world) lossyThreads() []int {
	w.mu.Lock()
	defer w.mu.Unlock()
	var out []int
	for t := range w.lossyC {
		out = append(out, t)
	}
	for t := range w.lossyV {
		out = append(out, t)
	}
	sort.Ints(out)
	return out
}

// readerStep is ONE receive of the consumer of thread t's subscription: it takes the change being
// offered, if any (got).  The pipelines are at rest before and after.  The reading "nothing is
// offered" is taken TWICE (a short pause and a second look at the wait states in between): on a
// heavily loaded machine (load average ~40) one run in two produced a single `subscriber-cut-off`
// on the unchanged tree -- the first look had found every goroutine blocked and nothing offered, the
// sentinel arrived a moment later.  Nothing else moves between the two looks (the controller is the
// only mover), so a second "nothing" is the same observation; a change that does turn up is taken
// as this step's receive.  A subscriber that really is cut off still never receives its sentinel.
func (w *world) readerStep(t int) (got bool, err error) {
	got, err = w.readerStepOnce(t)
	if err != nil || got {
		return got, err
	}
	time.Sleep(200 * time.Microsecond)
	return w.readerStepOnce(t)
}

func (w *world) readerStepOnce(t int) (got bool, err error) {
	if err := settle(); err != nil {
		return false, err
	}
	w.mu.Lock()
	chC, isC := w.lossyC[t]
	chV := w.lossyV[t]
	closed := w.lclosed[t]
	w.mu.Unlock()
	if closed {
		return false, nil
	}
	if isC {
		select {
		case e, ok := <-chC:
			if !ok {
				return false, fmt.Errorf("the channel of the Pull without backpressure of thread %d was closed", t)
			}
			oc := ochange{id: e.Id, t: e.ChangeTime.UnixNano(), kind: kindCode(e.ChangeType), old: fromProto(e.OldValue), new_: fromProto(e.NewValue), seed: e.SeedValue, last: e.LastSeedValue}
			w.mu.Lock()
			w.lgotC[t] = append(w.lgotC[t], oc)
			w.mu.Unlock()
			got = true
		default:
		}
	} else {
		select {
		case e, ok := <-chV:
			if !ok {
				w.mu.Lock()
				w.lclosed[t] = true
				w.mu.Unlock()
				return false, nil
			}
			oc := ovchange{v: *fromProto(e.Value), t: e.ChangeTime.UnixNano(), seed: e.SeedValue, last: e.LastSeedValue}
			w.mu.Lock()
			w.lgotV[t] = append(w.lgotV[t], oc)
			w.mu.Unlock()
			got = true
		default:
		}
	}
	return got, settle()
}
