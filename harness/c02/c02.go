// Command c02 is the correspondence harness of the concurrent store properties C02 (concurrent
// writes are linearizable, no lost updates) and C03 (a subscriber's folded view converges):
// it forces schedules on resource.Value / resource.Collection through the verifhook gates and
// writes the schedule together with everything observed for the Coq side (Conc/Judge.v).
package main

import (
	"context"
	"fmt"
	"io"
	"log"
	"sort"
	"strings"
	"sync"
	"time"

	"github.com/smart-core-os/sc-golang/pkg/resource"
	"github.com/smart-core-os/sc-golang/verifharness/vcoq"
	"github.com/smart-core-os/sc-golang/verifharness/vh"
	"google.golang.org/protobuf/proto"
)

func main() { vh.Main() }

func init() {
	log.SetOutput(io.Discard) // Value.set's "took too long" alarm while a thread is parked
	vh.Register("C02", genC02)
	vh.Register("C03", genC03)
}

const header = "From SC Require Import Base.Prelude Resource.Impl Resource.Spec Resource.Pull Resource.Flat Resource.Judge Conc.Lts Conc.Judge."

// ---------- calls ----------

const (
	kSet = iota
	kUpdate
	kAdd
	kDelete
	kSubV
	kSubC
	kSubL  // Collection.Pull / PullID (pid) WITHOUT backpressure; its consumer receives only at the schedule's reader steps, and keeps receiving once every thread has ended
	kSubID // Collection.PullID, backpressured
)

type fcall struct {
	kind int
	id   string
	msg  fmsg
	o    *fwo
	ro   *fro
	name string // template name, for the histogram
	// kSubL: PullID(id) instead of Pull; the number of receives the consumer performs as schedule steps
	pid   bool
	nrecv int
	// Add("") with WithGenIDIfAbsent: the byte strings this call's rng reads return, in order; the
	// id the call reported through WithIDCallback replaces c.id before the case is printed, i.e.
	// the model sees the call as Add(<reported id>) (see notes/C02.md, generated ids)
	genCands [][]byte
	// CaseGen scenarios (genid.go): the raw byte strings this call's rng reads return (o.genID), and
	// what its callbacks were handed during the run (reset by exec)
	cands    [][]byte
	reported []string
	created  int
}

func (c *fcall) coq() string {
	switch c.kind {
	case kSet:
		return vcoq.App("FSet", coqMsg(c.msg), c.o.coq())
	case kUpdate:
		return vcoq.App("FUpdate", vcoq.Str(c.id), coqMsg(c.msg), c.o.coq())
	case kAdd:
		return vcoq.App("FAdd", vcoq.Str(c.id), coqMsg(c.msg), c.o.coq())
	case kDelete:
		return vcoq.App("FDelete", vcoq.Str(c.id), c.o.coq())
	case kSubV:
		return vcoq.App("FSubV", c.ro.coq())
	case kSubL:
		if c.pid {
			return vcoq.App("FSubL", vcoq.App("Some", vcoq.Str(c.id)), c.ro.coq())
		}
		return vcoq.App("FSubL", "None", c.ro.coq())
	case kSubID:
		return vcoq.App("FSubID", vcoq.Str(c.id), c.ro.coq())
	}
	return vcoq.App("FSubC", c.ro.coq())
}
func (c *fcall) js() any {
	m := map[string]any{"op": []string{"Value.Set", "Collection.Update", "Collection.Add", "Collection.Delete", "Value.Pull", "Collection.Pull", "Collection.Pull/PullID without backpressure (the consumer receives at the schedule entries naming this thread after its own steps, and until nothing is offered once every thread has ended)", "Collection.PullID"}[c.kind]}
	switch c.kind {
	case kSet:
		m["msg"], m["opts"] = jsMsg(&c.msg), c.o.js()
	case kUpdate, kAdd:
		m["id"], m["msg"], m["opts"] = c.id, jsMsg(&c.msg), c.o.js()
	case kDelete:
		m["id"], m["opts"] = c.id, c.o.js()
	case kSubID:
		m["id"], m["read_opts"] = c.id, c.ro.js()
	case kSubL:
		m["read_opts"], m["reader_steps"] = c.ro.js(), c.nrecv
		if c.pid {
			m["pull_id"] = c.id
		}
	default:
		m["read_opts"] = c.ro.js()
	}
	return m
}
func (c *fcall) isSub() bool {
	return c.kind == kSubV || c.kind == kSubC || c.kind == kSubL || c.kind == kSubID
}

type fout struct {
	msg  *fmsg
	code int64
}

func coqOut(o fout) string { return vcoq.App("mkFO", coqOptMsg(o.msg), vcoq.Z(o.code)) }

type initItem struct {
	id string
	m  fmsg
	t  int64
}

type scenario struct {
	// a Collection.Pull opened and cancelled before the threads start: its listener is still
	// registered with the bus (cancelled listeners are collected by a later Send)
	cancelledSub bool
	vinit        *fmsg
	cinit        []initItem // sorted by id
	prog         []*fcall
	tags         []string
	idLower      bool // the collection has the (non-injective) id interceptor asciiLower
	// after[t]: thread t takes its first step only when these threads have ended (one writer issuing
	// its calls one after the other = a chain); nil = no constraint
	after map[int][]int
	// the equivalence and the writable fields the Value and the Collection are constructed with (cfg.go); nil = none
	cfg *rcfg
}

// ---------- one forced run ----------

const sentinelTime = 999999

type runResult struct {
	sched    []int
	alive    [][]int // threads not yet ended before each step
	results  []fout
	finalV   *fmsg
	finalC   []kv
	vstreams map[int][]ovchange
	cstreams map[int][]ochange
	closed   []int
	err      error
	stray    string // the collection holds items under ids no call of the program stores under
}

type world struct {
	val      *resource.Value
	coll     *resource.Collection
	ctx      context.Context
	cancel   context.CancelFunc
	mu       sync.Mutex
	vgot     map[int][]ovchange
	cgot     map[int][]ochange
	lossyC   map[int]<-chan *resource.CollectionChange // subscribers without backpressure: Pull
	lossyV   map[int]<-chan *resource.ValueChange      // ... PullID
	lgotC    map[int][]ochange                         // what their consumers have received
	lgotV    map[int][]ovchange
	lclosed  map[int]bool
	lpid     map[int]string
	rng      *gidRNG
	stray    string
	idLower  bool
	extraIDs []string       // generated ids reported by the calls, and every id the scenario mentions
	pids     map[int]string // PullID subscribers: thread -> id
	closed   map[int]bool   // PullID subscribers whose channel has been closed
	wg       sync.WaitGroup
}

func newWorld(sc *scenario) *world {
	w := &world{vgot: map[int][]ovchange{}, cgot: map[int][]ochange{}, lossyC: map[int]<-chan *resource.CollectionChange{}, lossyV: map[int]<-chan *resource.ValueChange{}, lgotC: map[int][]ochange{}, lgotV: map[int][]ovchange{}, lclosed: map[int]bool{}, lpid: map[int]string{}, pids: map[int]string{}, closed: map[int]bool{}}
	w.ctx, w.cancel = context.WithCancel(context.Background())
	vopts := []resource.Option{resource.WithClock(&fakeClock{})}
	if sc.vinit != nil {
		vopts = append(vopts, resource.WithInitialValue(toProto(*sc.vinit)))
	}
	if sc.cfg != nil {
		vopts = append(vopts, sc.cfg.options()...)
	}
	w.val = resource.NewValue(vopts...)
	w.rng = &gidRNG{bufs: map[int64][][]byte{}}
	copts := []resource.Option{resource.WithClock(&fakeClock{}), resource.WithRNG(w.rng)}
	if sc.idLower {
		copts = append(copts, resource.WithIDInterceptor(asciiLower))
	}
	if sc.cfg != nil {
		copts = append(copts, sc.cfg.options()...)
	}
	w.coll = resource.NewCollection(copts...)
	w.idLower = sc.idLower
	for _, it := range sc.cinit {
		w.extraIDs = append(w.extraIDs, it.id)
	}
	for _, c := range sc.prog {
		w.extraIDs = append(w.extraIDs, c.id)
		if c.o != nil && c.o.genID {
			w.extraIDs = append(w.extraIDs, encCands(c.cands)...)
		}
	}
	for _, it := range sc.cinit {
		if _, err := w.coll.Update(it.id, toProto(it.m), resource.WithCreateIfAbsent(), resource.WithAllFieldsWritable(), resource.WithWriteTime(time.Unix(0, it.t))); err != nil {
			panic(err)
		}
	}
	if sc.cancelledSub {
		ctx0, cancel0 := context.WithCancel(context.Background())
		ch0 := w.coll.Pull(ctx0, resource.WithBackpressure(true))
		gone := make(chan struct{})
		go func() {
			defer close(gone)
			for range ch0 {
			}
		}()
		cancel0()
		<-gone
		time.Sleep(2 * time.Millisecond) // let the bus listener's own stop run
	}
	return w
}

// exec performs the call of thread t (on the goroutine of that thread)
func (w *world) exec(t int, c *fcall) fout {
	switch c.kind {
	case kSet:
		m, err := w.val.Set(toProto(c.msg), c.o.opts()...)
		return fout{fromProto(nilIfErr(m, err)), code(err)}
	case kUpdate:
		m, err := w.coll.Update(c.id, toProto(c.msg), w.cbOpts(c)...)
		return fout{fromProto(nilIfErr(m, err)), code(err)}
	case kAdd:
		if c.o.genID || c.o.idCb || c.o.createdCb {
			m, err := w.coll.Add(c.id, toProto(c.msg), w.cbOpts(c)...)
			return fout{fromProto(nilIfErr(m, err)), code(err)}
		}
		if c.genCands != nil {
			w.rng.set(curGID(), c.genCands)
			reported := ""
			opts := append(c.o.opts(), resource.WithGenIDIfAbsent(), resource.WithIDCallback(func(id string) { reported = id }))
			m, err := w.coll.Add("", toProto(c.msg), opts...)
			if reported != "" {
				w.mu.Lock()
				w.extraIDs = append(w.extraIDs, reported)
				w.mu.Unlock()
			}
			c.id = reported
			return fout{fromProto(nilIfErr(m, err)), code(err)}
		}
		m, err := w.coll.Add(c.id, toProto(c.msg), c.o.opts()...)
		return fout{fromProto(nilIfErr(m, err)), code(err)}
	case kDelete:
		m, err := w.coll.Delete(c.id, c.o.opts()...)
		return fout{fromProto(m), code(err)}
	case kSubV:
		ch := w.val.Pull(w.ctx, c.ro.opts()...)
		w.mu.Lock()
		w.vgot[t] = []ovchange{}
		w.mu.Unlock()
		w.wg.Add(1)
		go func() {
			defer w.wg.Done()
			for e := range ch {
				oc := ovchange{v: *fromProto(e.Value), t: e.ChangeTime.UnixNano(), seed: e.SeedValue, last: e.LastSeedValue}
				w.mu.Lock()
				w.vgot[t] = append(w.vgot[t], oc)
				w.mu.Unlock()
			}
		}()
		return fout{}
	case kSubID:
		ch := w.coll.PullID(w.ctx, c.id, c.ro.opts()...)
		w.mu.Lock()
		w.vgot[t] = []ovchange{}
		w.pids[t] = c.id
		w.mu.Unlock()
		w.wg.Add(1)
		go func() {
			defer w.wg.Done()
			for e := range ch {
				oc := ovchange{v: *fromProto(e.Value), t: e.ChangeTime.UnixNano(), seed: e.SeedValue, last: e.LastSeedValue}
				w.mu.Lock()
				w.vgot[t] = append(w.vgot[t], oc)
				w.mu.Unlock()
			}
			w.mu.Lock()
			if w.ctx.Err() == nil {
				w.closed[t] = true // closed by the subscription itself, not by our cancel
			}
			w.mu.Unlock()
		}()
		return fout{}
	case kSubL:
		// no WithBackpressure option at all: the default
		opts := []resource.ReadOption{resource.WithUpdatesOnly(c.ro.updatesOnly)}
		if c.ro.hasMask {
			opts = append(opts, resource.WithReadMask(maskOf(c.ro.mask)))
		}
		if c.pid {
			ch := w.coll.PullID(w.ctx, c.id, opts...)
			w.mu.Lock()
			w.lossyV[t], w.lgotV[t], w.lpid[t] = ch, []ovchange{}, c.id
			w.mu.Unlock()
			return fout{}
		}
		ch := w.coll.Pull(w.ctx, opts...)
		w.mu.Lock()
		w.lossyC[t], w.lgotC[t] = ch, []ochange{}
		w.mu.Unlock()
		return fout{}
	case kSubC:
		ch := w.coll.Pull(w.ctx, c.ro.opts()...)
		w.mu.Lock()
		w.cgot[t] = []ochange{}
		w.mu.Unlock()
		w.wg.Add(1)
		go func() {
			defer w.wg.Done()
			for e := range ch {
				oc := ochange{id: e.Id, t: e.ChangeTime.UnixNano(), kind: kindCode(e.ChangeType), old: fromProto(e.OldValue), new_: fromProto(e.NewValue), seed: e.SeedValue, last: e.LastSeedValue}
				w.mu.Lock()
				w.cgot[t] = append(w.cgot[t], oc)
				w.mu.Unlock()
			}
		}()
		return fout{}
	}
	panic("bad call")
}

// cbOpts: the call's options plus the callbacks / the generator, logging into the call
func (w *world) cbOpts(c *fcall) []resource.WriteOption {
	opts := c.o.opts()
	if !(c.o.genID || c.o.idCb || c.o.createdCb) {
		return opts
	}
	c.reported, c.created = nil, 0
	if c.o.genID {
		w.rng.set(curGID(), c.cands)
		opts = append(opts, resource.WithGenIDIfAbsent())
	}
	if c.o.idCb {
		opts = append(opts, resource.WithIDCallback(func(id string) { c.reported = append(c.reported, id) }))
	}
	if c.o.createdCb {
		opts = append(opts, resource.WithCreatedCallback(func() { c.created++ }))
	}
	return opts
}

// a typed nil inside the interface would not be nil for fromProto
func nilIfErr(m proto.Message, err error) proto.Message {
	if err != nil {
		return nil
	}
	return m
}

// finish takes the final reads, writes the sentinels and returns what the subscribers received
// before them.  Quiescence: bus.Send returns once the Pull goroutine has taken the event, and that
// goroutine takes the second sentinel only after the consumer has taken the first, at which point
// the (sequential) consumer has recorded everything earlier.
func (w *world) finish(r *runResult) {
	defer func() {
		w.cancel()
		w.wg.Wait()
	}()
	r.finalV = fromProto(w.val.Get())
	for _, m := range w.coll.List() {
		_ = m
	}
	r.finalC = w.list()
	r.stray = w.stray
	// the readers without backpressure keep receiving: until every goroutine of their pipelines is
	// blocked and nothing is offered any more
	for _, t := range w.lossyThreads() {
		for {
			got, err := w.readerStep(t)
			if err != nil {
				r.err = err
				return
			}
			if !got {
				break
			}
		}
	}
	st := resource.WithWriteTime(time.Unix(0, sentinelTime))
	// the sentinel writes are ordinary writes: if a turnstile has been left closed (a commit number that
	// never left) they would wait for ever; that is recognised by the goroutines' wait states
	if err := bounded("the sentinel write", func() {
		if len(w.vgot) > len(w.pids) {
			w.val.Set(toProto(fmsg{9001, 9001, 9001}), st)
			w.val.Set(toProto(fmsg{9002, 9002, 9002}), st)
		}
		if len(w.cgot) > 0 || len(w.lossyC) > 0 {
			w.coll.Update("zz", toProto(fmsg{9001, 9001, 9001}), resource.WithCreateIfAbsent(), st)
			w.coll.Update("zz", toProto(fmsg{9002, 9002, 9002}), resource.WithCreateIfAbsent(), st)
		}
		// a PullID subscriber only hears about its own item: the sentinel is written to that item
		for _, id := range w.pids {
			w.coll.Update(id, toProto(fmsg{9001, 9001, 9001}), resource.WithCreateIfAbsent(), st)
			w.coll.Update(id, toProto(fmsg{9002, 9002, 9002}), resource.WithCreateIfAbsent(), st)
		}
	}); err != nil {
		r.err = err
		return
	}
	// each PullID reader has either seen its sentinel or the close of its channel
	for t := range w.pids {
		start := time.Now()
		final := false
		for {
			w.mu.Lock()
			ok := w.closed[t]
			for _, e := range w.vgot[t] {
				if e.t == sentinelTime {
					ok = true
				}
			}
			w.mu.Unlock()
			if ok {
				break
			}
			if final || time.Since(start) > stepTimeout {
				r.err = fmt.Errorf("the sentinel never reached the PullID subscriber of thread %d", t)
				break
			}
			if stuck(start) {
				final = true // every goroutine is blocked: look once more, then give up
				continue
			}
			time.Sleep(50 * time.Microsecond)
		}
	}
	// the sentinel is the very next thing a subscriber without backpressure receives (it has taken
	// everything else): a check that the subscription is still attached to the bus
	for _, t := range w.lossyThreads() {
		w.mu.Lock()
		id, isPid := w.lpid[t]
		closed := w.lclosed[t]
		nc, nv := len(w.lgotC[t]), len(w.lgotV[t])
		w.mu.Unlock()
		if isPid {
			if closed {
				continue
			}
			if err := bounded("the sentinel write", func() {
				w.coll.Update(id, toProto(fmsg{9003, 9003, 9003}), resource.WithCreateIfAbsent(), st)
			}); err != nil {
				r.err = err
				return
			}
		}
		for {
			got, err := w.readerStep(t)
			if err != nil {
				r.err = err
				return
			}
			if !got {
				break
			}
		}
		w.mu.Lock()
		seen := false
		bad := false
		for _, e := range w.lgotC[t][nc:] {
			seen = true
			bad = bad || e.t != sentinelTime
		}
		for _, e := range w.lgotV[t][nv:] {
			seen = true
			bad = bad || e.t != sentinelTime
		}
		bad = bad || (isPid && w.lclosed[t])
		if isPid {
			w.lgotV[t] = w.lgotV[t][:nv]
		} else {
			w.lgotC[t] = w.lgotC[t][:nc]
		}
		w.mu.Unlock()
		if !seen || bad {
			r.err = fmt.Errorf("the sentinel never reached the subscriber without backpressure of thread %d (or something else did after it had stopped being offered anything)", t)
			return
		}
	}
	w.mu.Lock()
	r.vstreams, r.cstreams = map[int][]ovchange{}, map[int][]ochange{}
	for t, l := range w.lgotC {
		r.cstreams[t] = l
	}
	for t, l := range w.lgotV {
		r.vstreams[t] = l
	}
	for t, l := range w.vgot {
		out := []ovchange{}
		for _, e := range l {
			if e.t == sentinelTime {
				break
			}
			out = append(out, e)
		}
		r.vstreams[t] = out
	}
	r.closed = nil
	for t := range w.pids {
		if w.closed[t] {
			r.closed = append(r.closed, t)
		}
	}
	for t := range w.lpid {
		if w.lclosed[t] {
			r.closed = append(r.closed, t)
		}
	}
	sort.Ints(r.closed)
	for t, l := range w.cgot {
		out := []ochange{}
		for _, e := range l {
			if e.t == sentinelTime {
				break
			}
			out = append(out, e)
		}
		r.cstreams[t] = out
	}
	w.mu.Unlock()
}

// bounded runs f on a goroutine of its own and gives up when every goroutine has come to rest without f
// having returned (f is blocked for good)
func bounded(what string, f func()) error {
	done := make(chan struct{})
	go func() {
		defer close(done)
		f()
	}()
	start := time.Now()
	for {
		select {
		case <-done:
			return nil
		case <-time.After(2 * time.Millisecond):
		}
		if stuck(start) {
			select {
			case <-done:
				return nil
			default:
			}
			return fmt.Errorf("%s is blocked for good (every goroutine is waiting): a write cannot get past the turnstile, or a subscriber has stopped receiving", what)
		}
		if time.Since(start) > stepTimeout {
			return fmt.Errorf("%s did not return within %v", what, stepTimeout)
		}
	}
}

// list returns the collection's contents by stored id; the ids are recovered through a
// subscription-free route: List is sorted by id, and the scenario's ids are known
func (w *world) list() []kv {
	out := []kv{}
	seenID := map[string]bool{}
	for _, id := range append(append([]string{}, knownIDs...), w.extraIDs...) {
		if w.idLower {
			id = asciiLower(id) // the stored id
		}
		if seenID[id] || id == "" {
			continue
		}
		seenID[id] = true
		if m, ok := w.coll.Get(id); ok {
			out = append(out, kv{id, *fromProto(m)})
		}
	}
	if n := len(w.coll.List()); n != len(out) {
		// reported as a direct violation by emitCase / emitGen (an item stored under an id the calls do not name)
		w.stray = fmt.Sprintf("the collection holds %d items, %d of them under the ids the program's calls store under", n, len(out))
	}
	sort.Slice(out, func(i, j int) bool { return out[i].id < out[j].id })
	return out
}

var knownIDs = []string{"a", "b", "c"}

// gidRNG serves to each goroutine the candidate byte strings prepared for its call
type gidRNG struct {
	mu   sync.Mutex
	bufs map[int64][][]byte
}

func (r *gidRNG) set(gid int64, bufs [][]byte) {
	r.mu.Lock()
	defer r.mu.Unlock()
	r.bufs[gid] = append([][]byte{}, bufs...)
}
func (r *gidRNG) Read(p []byte) (int, error) {
	r.mu.Lock()
	defer r.mu.Unlock()
	gid := curGID()
	l := r.bufs[gid]
	for i := range p {
		p[i] = 0x41
	}
	if len(l) > 0 {
		copy(p, l[0])
		r.bufs[gid] = l[1:]
	}
	return len(p), nil
}

// a lock-held probe: at schedule position `at`, thread `holder` is parked at `point` (inside a
// lock) while thread `other` is released into its next step; both steps are then completed and
// recorded as [holder, other]
type probe struct {
	at            int
	holder, other int
	point         string
	blocked       *bool
	// turnstile: holder is parked at its *.publish with the earlier commit; other (a later commit parked at
	// its *.publish, or a Delete about to commit) is released and must wait in the turnstile until holder
	// has published; recorded as [holder, other] if it did wait, as [other, holder] (what happened) if not
	turnstile bool
}

// tickets mirrors the model's enabledness (Conc/Lts.v gate_open) on the Go side, from what the controller
// can see: where each thread is parked and which commits have been made.  A publish step is enabled only
// for the oldest unpublished commit of its resource; a Delete that would commit is not enabled while a
// commit of the collection is unpublished (in the code it would wait in the turnstile holding the write
// lock).  Whether a Delete's next step commits is known only partly here: it does NOT when the item it
// saw has been replaced or removed since (it retries) or was absent (it returns); otherwise it is taken
// to commit (conservative: a schedule is never generated that the model would not follow; `agrees`
// checks st_stutter = 0, so a divergence between this mirror and the model cannot go unnoticed).
type tickets struct {
	sc           *scenario
	pendV, pendC []int
	inV, inC     map[int]bool
	ver          map[string]int
	present      map[string]bool
	seenVer      map[int]int
	seenPresent  map[int]bool
}

func newTickets(sc *scenario) *tickets {
	k := &tickets{sc: sc, inV: map[int]bool{}, inC: map[int]bool{}, ver: map[string]int{}, present: map[string]bool{},
		seenVer: map[int]int{}, seenPresent: map[int]bool{}}
	for _, it := range sc.cinit {
		k.present[it.id] = true
	}
	return k
}

func (k *tickets) enabled(t int, th *thread) bool {
	if th.ended || th.steps == 0 {
		return true
	}
	switch th.at {
	case "value.publish":
		return len(k.pendV) > 0 && k.pendV[0] == t
	case "coll.publish":
		return len(k.pendC) > 0 && k.pendC[0] == t
	case "del.read", "del.retry":
		if len(k.pendC) == 0 {
			return true
		}
		id := k.key(k.sc.prog[t])
		return k.ver[id] != k.seenVer[t] || !k.seenPresent[t]
	}
	return true
}

// key: the id a call's item is stored under (through the id interceptor; for a generating call, the id it
// reported)
func (k *tickets) key(c *fcall) string {
	id := c.id
	if id == "" && c.o != nil && c.o.genID && len(c.reported) > 0 {
		id = c.reported[0]
	}
	if k.sc.idLower {
		id = asciiLower(id)
	}
	return id
}

func dropInt(l []int, t int) []int {
	out := l[:0:0]
	for _, x := range l {
		if x != t {
			out = append(out, x)
		}
	}
	return out
}

// after records what the step thread t has just completed did to the turnstiles
func (k *tickets) after(t int, th *thread, res fout) {
	c := k.sc.prog[t]
	if th.ended || (th.wantAdopt && th.callerEnded) {
		k.pendV, k.pendC = dropInt(k.pendV, t), dropInt(k.pendC, t)
		if c.kind == kDelete && res.code == 0 && res.msg != nil && !k.inC[t] {
			k.inC[t] = true // counted once
			k.ver[k.key(c)]++
			k.present[k.key(c)] = false
		}
		return
	}
	switch th.at {
	case "value.publish":
		if !k.inV[t] {
			k.inV[t] = true
			k.pendV = append(k.pendV, t)
		}
	case "coll.publish":
		if !k.inC[t] {
			k.inC[t] = true
			k.pendC = append(k.pendC, t)
			if c.genCands == nil {
				k.ver[k.key(c)]++
				k.present[k.key(c)] = true
			}
		}
	case "del.read", "del.retry":
		k.seenVer[t] = k.ver[k.key(c)]
		k.seenPresent[t] = k.present[k.key(c)]
	}
}

// runSchedule forces `prefix`, then keeps choosing by `pick` until every thread has ended.
func runSchedule(sc *scenario, prefix []int, pick func(alive []int) int) *runResult {
	return runScheduleProbe(sc, prefix, pick, nil)
}

func runScheduleProbe(sc *scenario, prefix []int, pick func(alive []int) int, pr *probe) *runResult {
	w := newWorld(sc)
	r := &runResult{results: make([]fout, len(sc.prog))}
	threads := make([]*thread, len(sc.prog))
	for t := range sc.prog {
		t := t
		threads[t] = ctl.spawn(func() { r.results[t] = w.exec(t, sc.prog[t]) })
		if sc.prog[t].kind == kSubID || (sc.prog[t].kind == kSubL && sc.prog[t].pid) {
			threads[t].wantAdopt = true
			threads[t].adoptCh = make(chan *thread, 1)
		}
	}
	recvLeft := make([]int, len(sc.prog))
	for t, c := range sc.prog {
		if c.kind == kSubL {
			recvLeft[t] = c.nrecv
		}
	}
	tk := newTickets(sc)
	for step := 0; ; step++ {
		// alive: may be scheduled now; a thread held back by sc.after is not (it is not ended either)
		var alive []int
		waiting := false
		for t, th := range threads {
			if th.ended && recvLeft[t] == 0 {
				continue
			}
			held := false
			if th.steps == 0 {
				for _, p := range sc.after[t] {
					if !threads[p].ended {
						held = true
					}
				}
			}
			if held {
				waiting = true
				continue
			}
			alive = append(alive, t)
		}
		if len(alive) == 0 {
			if waiting {
				r.err = fmt.Errorf("scenario: every remaining thread is held back")
			}
			break
		}
		// only the steps the model has enabled are scheduled (the turnstile: publications in commit order)
		live := alive
		alive = nil
		for _, t := range live {
			if tk.enabled(t, threads[t]) {
				alive = append(alive, t)
			}
		}
		if len(alive) == 0 {
			r.err = fmt.Errorf("no step is enabled although threads %v have not ended (turnstile queues %v %v)", live, tk.pendV, tk.pendC)
			break
		}
		if pr != nil && step == pr.at && pr.turnstile {
			b, err := ctl.probeTurnstile(threads[pr.holder], threads[pr.other])
			if err != nil {
				r.err = fmt.Errorf("probe: %v", err)
				break
			}
			*pr.blocked = b
			if w.hasLossy() {
				if err := settle(); err != nil {
					r.err = fmt.Errorf("probe: %v", err)
					break
				}
			}
			first, second := pr.holder, pr.other
			if !b {
				first, second = pr.other, pr.holder // what happened: the later commit published first
			}
			tk.after(first, threads[first], r.results[first])
			tk.after(second, threads[second], r.results[second])
			r.alive = append(r.alive, []int{first}, []int{second})
			r.sched = append(r.sched, first, second)
			step++
			continue
		}
		if pr != nil && step == pr.at {
			b, err := ctl.probeLockHeld(threads[pr.holder], pr.point, threads[pr.other])
			if err != nil {
				r.err = fmt.Errorf("probe: %v", err)
				break
			}
			*pr.blocked = b
			if w.hasLossy() {
				if err := settle(); err != nil {
					r.err = fmt.Errorf("probe: %v", err)
					break
				}
			}
			tk.after(pr.holder, threads[pr.holder], r.results[pr.holder])
			tk.after(pr.other, threads[pr.other], r.results[pr.other])
			r.alive = append(r.alive, []int{pr.holder}, []int{pr.other})
			r.sched = append(r.sched, pr.holder, pr.other)
			step++
			continue
		}
		var t int
		if step < len(prefix) {
			t = prefix[step]
			ok := false
			for _, a := range alive {
				ok = ok || a == t
			}
			if !ok {
				r.err = fmt.Errorf("schedule names thread %d which has ended or is held back", t)
				break
			}
		} else {
			t = pick(alive)
		}
		r.alive = append(r.alive, alive)
		r.sched = append(r.sched, t)
		if threads[t].ended {
			// a receive of the consumer of a subscription without backpressure
			recvLeft[t]--
			if _, err := w.readerStep(t); err != nil {
				r.err = fmt.Errorf("step %d (reader of thread %d): %v", step, t, err)
				break
			}
			continue
		}
		if err := ctl.step(threads[t]); err != nil {
			r.err = fmt.Errorf("step %d (thread %d): %v", step, t, err)
			break
		}
		tk.after(t, threads[t], r.results[t])
		if w.hasLossy() {
			if err := settle(); err != nil {
				r.err = fmt.Errorf("step %d (thread %d): %v", step, t, err)
				break
			}
		}
	}
	if r.err != nil {
		ctl.abandon(threads)
		w.cancel()
		return r
	}
	w.finish(r)
	return r
}

func lowest(alive []int) int { return alive[0] }

// exploreAll runs every schedule of the scenario (all interleavings of the threads' atomic steps)
func exploreAll(sc *scenario, limit int, emit func(*runResult)) int {
	n := 0
	var rec func(prefix []int)
	rec = func(prefix []int) {
		if limit > 0 && n >= limit {
			return
		}
		r := runSchedule(sc, prefix, lowest)
		n++
		emit(r)
		if r.err != nil {
			return
		}
		for pos := len(prefix); pos < len(r.sched); pos++ {
			for _, alt := range r.alive[pos] {
				if alt != r.sched[pos] {
					np := append(append([]int{}, r.sched[:pos]...), alt)
					rec(np)
				}
			}
		}
	}
	rec(nil)
	return n
}

// ---------- emitting a case ----------

func coqNats(l []int) string {
	it := make([]string, len(l))
	for i, v := range l {
		it[i] = vcoq.Nat(v)
	}
	return vcoq.List(it)
}

func emitCase(o *vcoq.Out, sc *scenario, r *runResult, extraTags []string) {
	if r.err != nil {
		class := "gate-timeout"
		if strings.HasPrefix(r.err.Error(), "the sentinel") {
			class = "subscriber-cut-off"
		}
		o.Directs = append(o.Directs, vcoq.Direct{
			What:   "forced schedule could not be executed on the implementation: " + r.err.Error(),
			Class:  class,
			Replay: map[string]any{"program": jsProg(sc), "schedule": r.sched},
		})
		return
	}
	if r.stray != "" {
		o.Directs = append(o.Directs, vcoq.Direct{What: r.stray, Class: "stray-item",
			Replay: map[string]any{"program": jsProg(sc), "schedule": r.sched}})
		return
	}
	prog := make([]string, len(sc.prog))
	for i, c := range sc.prog {
		prog[i] = c.coq()
	}
	res := make([]string, len(r.results))
	jres := []any{}
	for i, x := range r.results {
		res[i] = coqOut(x)
		jres = append(jres, map[string]any{"msg": jsMsg(x.msg), "code": x.code})
	}
	cinit := make([]string, len(sc.cinit))
	jinit := []any{}
	for i, it := range sc.cinit {
		cinit[i] = vcoq.Pair(vcoq.Pair(vcoq.Str(it.id), coqMsg(it.m)), vcoq.Z(it.t))
		jinit = append(jinit, map[string]any{"id": it.id, "value": jsMsg(&it.m), "time": it.t})
	}
	var vs, cs []string
	jvs, jcs := map[string]any{}, map[string]any{}
	for _, t := range sortedKeys(r.vstreams) {
		it := []string{}
		js := []any{}
		for _, e := range r.vstreams[t] {
			it = append(it, coqOVChange(e))
			js = append(js, jsOVChange(e))
		}
		vs = append(vs, vcoq.Pair(vcoq.Nat(t), vcoq.List(it)))
		jvs[fmt.Sprint(t)] = js
	}
	for _, t := range sortedKeysC(r.cstreams) {
		it := []string{}
		js := []any{}
		for _, e := range r.cstreams[t] {
			it = append(it, coqOChange(e))
			js = append(js, jsOChange(e))
		}
		cs = append(cs, vcoq.Pair(vcoq.Nat(t), vcoq.List(it)))
		jcs[fmt.Sprint(t)] = js
	}
	term := vcoq.App("CaseSched", "None", coqOptMsg(sc.vinit), vcoq.List(cinit), vcoq.List(prog), coqNats(r.sched),
		vcoq.List(res), coqOptMsg(r.finalV), coqKVs(r.finalC), vcoq.List(vs), vcoq.List(cs), coqNats(r.closed))
	var jcfg any = "none"
	if sc.cfg != nil {
		term = vcoq.App("CaseCfg", sc.cfg.coq(), "None", coqOptMsg(sc.vinit), vcoq.List(cinit), vcoq.List(prog), coqNats(r.sched),
			vcoq.List(res), coqOptMsg(r.finalV), coqKVs(r.finalC), vcoq.List(vs), vcoq.List(cs), coqNats(r.closed))
		jcfg = sc.cfg.js()
	}
	tags := append([]string{}, sc.tags...)
	tags = append(tags, extraTags...)
	lost := false
	for i, x := range r.results {
		if sc.prog[i].isSub() {
			continue
		}
		tags = append(tags, fmt.Sprintf("result:%s:code%d", sc.prog[i].name, x.code))
		if x.code == 10 || x.code == 14 {
			lost = true
		}
	}
	if lost {
		tags = append(tags, "lost-race")
	}
	tags = append(tags, fmt.Sprintf("threads:%d", len(sc.prog)), fmt.Sprintf("steps:%d", len(r.sched)))
	o.Add(vcoq.Case{
		Coq: term,
		JSON: map[string]any{"resource_equivalence": jcfg, "value_initial": jsMsg(sc.vinit), "collection_initial": jinit, "program": jsProg(sc),
			"schedule": r.sched, "results": jres, "final_get": jsMsg(r.finalV), "final_list": jsKVs(r.finalC),
			"value_streams": jvs, "collection_streams": jcs, "pullid_closed": r.closed},
		Key:        term,
		NonTrivial: len(sc.prog) >= 2,
		Tags:       tags,
	})
}

func jsProg(sc *scenario) any {
	out := []any{}
	for _, c := range sc.prog {
		out = append(out, c.js())
	}
	return out
}
func sortedKeys(m map[int][]ovchange) []int {
	k := []int{}
	for t := range m {
		k = append(k, t)
	}
	sort.Ints(k)
	return k
}
func sortedKeysC(m map[int][]ochange) []int {
	k := []int{}
	for t := range m {
		k = append(k, t)
	}
	sort.Ints(k)
	return k
}

// ---------- call templates ----------

type tmpl struct {
	name string
	mk   func(t int, base int64) *fcall
}

func ip(v int64) *int64 { return &v }

var vinit0 = fmsg{5, 0, 0}
var cval0 = fmsg{1, 0, 0}

var valueTmpls = []tmpl{
	{"set-cas", func(t int, b int64) *fcall {
		return &fcall{kind: kSet, msg: fmsg{b + 10 + int64(t), 0, 0}, o: &fwo{expected: &fmsg{5, 0, 0}}}
	}},
	{"set-delta", func(t int, b int64) *fcall {
		return &fcall{kind: kSet, msg: fmsg{b + 1 + int64(t), 0, 0}, o: &fwo{before: &icpt{kind: 0, f: fa}}}
	}},
	{"set-masked", func(t int, b int64) *fcall {
		return &fcall{kind: kSet, msg: fmsg{0, b + 7 + int64(t), 0}, o: &fwo{hasUpdate: true, update: []fld{fb}}}
	}},
	{"set-check", func(t int, b int64) *fcall {
		return &fcall{kind: kSet, msg: fmsg{b + 40 + int64(t), 0, 3}, o: &fwo{check: &chk{kind: 0, f: fa, k: 5, code: 9}, time: ip(500 + int64(t))}}
	}},
}

var collTmpls = []tmpl{
	{"add", func(t int, b int64) *fcall {
		return &fcall{kind: kAdd, id: "a", msg: fmsg{b + 10 + int64(t), 0, 0}, o: &fwo{}}
	}},
	{"upsert", func(t int, b int64) *fcall {
		return &fcall{kind: kUpdate, id: "a", msg: fmsg{b + 20 + int64(t), 0, 0}, o: &fwo{create: true}}
	}},
	{"upsert-delta", func(t int, b int64) *fcall {
		return &fcall{kind: kUpdate, id: "a", msg: fmsg{b + 1 + int64(t), 0, 0}, o: &fwo{create: true, before: &icpt{kind: 0, f: fa}}}
	}},
	{"update-cas", func(t int, b int64) *fcall {
		return &fcall{kind: kUpdate, id: "a", msg: fmsg{b + 30 + int64(t), 0, 0}, o: &fwo{expected: &fmsg{1, 0, 0}}}
	}},
	{"delete-expected", func(t int, b int64) *fcall {
		return &fcall{kind: kDelete, id: "a", o: &fwo{expected: &fmsg{1, 0, 0}}}
	}},
	{"delete-check", func(t int, b int64) *fcall {
		return &fcall{kind: kDelete, id: "a", o: &fwo{check: &chk{kind: 0, f: fa, k: 1, code: 9}}}
	}},
	{"delete-allow-missing", func(t int, b int64) *fcall {
		return &fcall{kind: kDelete, id: "a", o: &fwo{allowMissing: true, time: ip(700 + int64(t))}}
	}},
	{"update-other-id", func(t int, b int64) *fcall {
		return &fcall{kind: kUpdate, id: "b", msg: fmsg{0, b + 50 + int64(t), 0}, o: &fwo{create: true, hasUpdate: true, update: []fld{fb}}}
	}},
}

func mkCall(tp tmpl, t int, base int64) *fcall {
	c := tp.mk(t, base)
	c.name = tp.name
	return c
}

func collInit(present bool) []initItem {
	if present {
		return []initItem{{"a", cval0, 300}, {"b", fmsg{2, 2, 0}, 310}}
	}
	return []initItem{{"b", fmsg{2, 2, 0}, 310}}
}

// ---------- C02 ----------

func genC02(o *vcoq.Out, r *vcoq.Rand, tier string) error {
	o.Header, o.CaseType, o.Judge, o.Shard = header, "ccase", "judge02", 150
	o.Rule = "distinct (program, schedule, observation) with at least two concurrent calls"
	base := int64(r.Intn(50)) * 100 // the written values vary with the seed; the structure is exhaustive
	emit := func(sc *scenario, tags ...string) func(*runResult) {
		return func(rr *runResult) { emitCase(o, sc, rr, tags) }
	}
	// all interleavings of two threads, every pair of templates
	for i, a := range valueTmpls {
		for j := i; j < len(valueTmpls); j++ {
			sc := &scenario{vinit: &vinit0, prog: []*fcall{mkCall(a, 0, base), mkCall(valueTmpls[j], 1, base)},
				tags: []string{"pair:" + a.name + "+" + valueTmpls[j].name, "resource:value"}}
			exploreAll(sc, 0, emit(sc, "exhaustive-2"))
		}
	}
	for _, present := range []bool{false, true} {
		for i, a := range collTmpls {
			for j := i; j < len(collTmpls); j++ {
				sc := &scenario{cinit: collInit(present), prog: []*fcall{mkCall(a, 0, base), mkCall(collTmpls[j], 1, base)},
					tags: []string{"pair:" + a.name + "+" + collTmpls[j].name, "resource:collection", fmt.Sprintf("initially-present:%v", present)}}
				exploreAll(sc, 0, emit(sc, "exhaustive-2"))
			}
		}
	}
	// a value without an initial value: old is nil on the first read
	{
		sc := &scenario{prog: []*fcall{mkCall(valueTmpls[1], 0, base), mkCall(valueTmpls[2], 1, base)}, tags: []string{"resource:value", "initial:nil"}}
		exploreAll(sc, 0, emit(sc, "exhaustive-2"))
	}
	// generated ids: two concurrent Add("") whose rng draws the SAME first candidate / different ones;
	// every interleaving.  Both succeed under different ids, or the loser is Aborted; never one id twice.
	for _, collide := range []bool{true, false} {
		c0 := [][]byte{[]byte("idAAAA"), []byte("idBBBB0"), []byte("idCCCC00")}
		c1 := [][]byte{[]byte("idAAAA"), []byte("idDDDD0"), []byte("idEEEE00")}
		if !collide {
			c1[0] = []byte("idFFFF")
		}
		sc := &scenario{cinit: collInit(true), tags: []string{"generated-id", fmt.Sprintf("same-first-candidate:%v", collide)}}
		sc.prog = []*fcall{
			{kind: kAdd, msg: fmsg{base + 60, 0, 0}, o: &fwo{}, name: "add-gen", genCands: c0},
			{kind: kAdd, msg: fmsg{base + 61, 0, 0}, o: &fwo{}, name: "add-gen", genCands: c1},
		}
		exploreAll(sc, 0, func(rr *runResult) {
			ids := map[string]int{}
			for i, c := range sc.prog {
				if c.id == "" {
					o.Directs = append(o.Directs, vcoq.Direct{What: "Add with WithGenIDIfAbsent reported no id", Class: "gen-id-none", Replay: map[string]any{"schedule": rr.sched}})
					return
				}
				if rr.err == nil && rr.results[i].code == 0 {
					ids[c.id]++
				}
			}
			for id, n := range ids {
				if n > 1 {
					o.Directs = append(o.Directs, vcoq.Direct{What: "two concurrent Adds with generated ids both succeeded under the same id " + id, Class: "gen-id-twice", Replay: map[string]any{"schedule": rr.sched}})
				}
			}
			emitCase(o, sc, rr, []string{"exhaustive-2"})
		})
	}
	// a Delete starved by interfering writers: Unavailable exactly after five lost races
	for _, interferers := range []int{4, 5} {
		sc := &scenario{cinit: collInit(true), tags: []string{fmt.Sprintf("delete-starved:%d", interferers)}}
		sc.prog = append(sc.prog, &fcall{kind: kDelete, id: "a", o: &fwo{}, name: "delete-plain"})
		var prefix []int
		prefix = append(prefix, 0) // the first read
		for k := 1; k <= interferers; k++ {
			sc.prog = append(sc.prog, mkCall(findTmpl(collTmpls, "upsert"), k, base))
			prefix = append(prefix, k, k, k, 0) // a whole Update, then one more lost recheck
		}
		rr := runSchedule(sc, prefix, lowest)
		emitCase(o, sc, rr, []string{"targeted"})
	}
	// three and four threads, sampled schedules
	n3 := 150
	if tier == "thorough" {
		n3 = 6000
	}
	for k := 0; k < n3; k++ {
		nt := 3 + r.Intn(2)
		sc := &scenario{vinit: &vinit0, cinit: collInit(r.Bool())}
		onValue := r.Chance(35)
		for t := 0; t < nt; t++ {
			if onValue {
				sc.prog = append(sc.prog, mkCall(valueTmpls[r.Intn(len(valueTmpls))], t, base))
			} else {
				sc.prog = append(sc.prog, mkCall(collTmpls[r.Intn(len(collTmpls))], t, base))
			}
		}
		sc.tags = []string{fmt.Sprintf("sampled-%d", nt)}
		rr := runSchedule(sc, nil, func(alive []int) int { return alive[r.Intn(len(alive))] })
		emitCase(o, sc, rr, nil)
	}
	genIDCases(o, r, tier, base)
	genCfgCases(o, r, tier, base)
	if tier == "thorough" {
		stress(o, r, base)
	}
	return nil
}

// ---------- C03 ----------

var roVariants = []fro{
	{},
	{hasMask: true, mask: []fld{fa}},
	{updatesOnly: true},
	{hasMask: true, mask: []fld{fa, fc}, updatesOnly: true},
}

func subCall(value bool, ro fro) *fcall {
	k := kSubC
	if value {
		k = kSubV
	}
	return &fcall{kind: k, ro: &ro, name: "pull"}
}

func genC03(o *vcoq.Out, r *vcoq.Rand, tier string) error {
	o.Header, o.CaseType, o.Judge, o.Shard = header, "ccase", "judge03", 100
	o.Rule = "distinct (program, schedule, observation) with a subscriber and at least one writer"
	base := int64(r.Intn(50)) * 100
	vt := func(name string) tmpl { return findTmpl(valueTmpls, name) }
	ct := func(name string) tmpl { return findTmpl(collTmpls, name) }
	type progSpec struct {
		value   bool
		present bool
		writers []tmpl
		ros     []int
	}
	specs := []progSpec{
		// one writer, every read-option variant, subscription at every position
		{true, false, []tmpl{vt("set-delta")}, []int{0, 1, 2, 3}},
		{true, false, []tmpl{vt("set-cas")}, []int{0, 1, 2, 3}},
		{false, true, []tmpl{ct("upsert")}, []int{0, 1, 2, 3}},
		{false, false, []tmpl{ct("add")}, []int{0, 1, 2, 3}},
		{false, true, []tmpl{ct("delete-expected")}, []int{0, 1, 2, 3}},
		// two writers
		{true, false, []tmpl{vt("set-delta"), vt("set-delta")}, []int{0, 3}},
		{true, false, []tmpl{vt("set-masked"), vt("set-cas")}, []int{1}},
		{false, true, []tmpl{ct("upsert"), ct("upsert-delta")}, []int{0}},
		{false, true, []tmpl{ct("upsert"), ct("delete-allow-missing")}, []int{1}},
		{false, true, []tmpl{ct("delete-expected"), ct("delete-allow-missing")}, []int{0, 2}},
		{false, false, []tmpl{ct("add"), ct("update-other-id")}, []int{0}},
	}
	for _, ps := range specs {
		for _, ri := range ps.ros {
			sc := &scenario{vinit: &vinit0, cinit: collInit(ps.present)}
			names := []string{}
			for t, w := range ps.writers {
				sc.prog = append(sc.prog, mkCall(w, t, base))
				names = append(names, w.name)
			}
			sc.prog = append(sc.prog, subCall(ps.value, roVariants[ri]))
			sc.tags = []string{"writers:" + strings.Join(names, "+"), fmt.Sprintf("read-options:%d", ri), fmt.Sprintf("nwriters:%d", len(ps.writers))}
			exploreAll(sc, 0, func(rr *runResult) { emitCase(o, sc, rr, []string{"exhaustive"}) })
		}
	}
	// lock-held probes: a seeded subscribe holds the read lock from snapshot to Listen, and a Delete
	// holds the write lock from the removal to the end of its publication; a writer released into
	// its save step meanwhile must be kept out
	type probeSpec struct {
		name   string
		sc     *scenario
		prefix []int
		pr     probe
	}
	plain := roVariants[0]
	probes := []probeSpec{
		{"subscribe-value", &scenario{vinit: &vinit0, prog: []*fcall{mkCall(vt("set-delta"), 0, base), subCall(true, plain)}},
			[]int{0}, probe{at: 1, holder: 1, other: 0, point: "bus.listen.register"}},
		{"subscribe-collection", &scenario{cinit: collInit(true), prog: []*fcall{mkCall(ct("upsert"), 0, base), subCall(false, plain)}},
			[]int{0}, probe{at: 1, holder: 1, other: 0, point: "bus.listen.register"}},
		{"delete-publish", &scenario{cinit: collInit(true), prog: []*fcall{mkCall(ct("upsert"), 0, base), mkCall(ct("delete-expected"), 1, base), subCall(false, plain)}},
			[]int{2, 0, 1}, probe{at: 3, holder: 1, other: 0, point: "bus.send.snapshot"}},
	}
	for _, ps := range probes {
		blocked := false
		ps.pr.blocked = &blocked
		ps.sc.tags = []string{"probe:" + ps.name}
		rr := runScheduleProbe(ps.sc, ps.prefix, lowest, &ps.pr)
		if rr.err == nil && !blocked {
			o.Directs = append(o.Directs, vcoq.Direct{
				What:   "lock not held across " + ps.name + ": a writer's save ran while the other thread was parked at " + ps.pr.point + " (snapshot and Listen, or removal and its publication, are no longer one atomic step)",
				Class:  "lock-not-held:" + ps.name,
				Replay: map[string]any{"program": jsProg(ps.sc), "schedule_prefix": ps.prefix, "parked_at": ps.pr.point},
			})
		}
		emitCase(o, ps.sc, rr, []string{"lock-held-probe"})
	}
	// turnstile probes: two commits of one resource are unpublished (the earlier thread parked at its
	// *.publish); the later one -- a Set / Update at its *.publish, or a Delete about to commit under the
	// lock -- is released and must wait in the turnstile (goroutine wait state) until the earlier one has
	// published, which it must be able to do although a waiting Delete holds the write lock.  This ties
	// "publish enabled only in commit order" (and "the turnstile closes no cycle") to the code.  If the
	// later commit is not kept back the run goes on: the schedule that really happened ([later, earlier]) is
	// recorded and judged like any other -- the model does not follow it and the subscriber's view is stale.
	tprobes := []probeSpec{
		{"value", &scenario{vinit: &vinit0, prog: []*fcall{mkCall(vt("set-delta"), 0, base), mkCall(vt("set-delta"), 1, base), subCall(true, plain)}},
			[]int{2, 0, 0, 1, 1}, probe{at: 5, holder: 0, other: 1, turnstile: true}},
		{"value-masked", &scenario{vinit: &vinit0, prog: []*fcall{mkCall(vt("set-masked"), 0, base), mkCall(vt("set-delta"), 1, base), subCall(true, roVariants[1])}},
			[]int{0, 0, 2, 1, 1}, probe{at: 5, holder: 0, other: 1, turnstile: true}},
		{"update", &scenario{cinit: collInit(true), prog: []*fcall{mkCall(ct("upsert"), 0, base), mkCall(ct("upsert-delta"), 1, base), subCall(false, plain)}},
			[]int{2, 0, 0, 1, 1}, probe{at: 5, holder: 0, other: 1, turnstile: true}},
		{"update-other-id", &scenario{cinit: collInit(true), prog: []*fcall{mkCall(ct("update-other-id"), 0, base), mkCall(ct("upsert"), 1, base), subCall(false, roVariants[2])}},
			[]int{2, 0, 0, 1, 1}, probe{at: 5, holder: 0, other: 1, turnstile: true}},
		// the Delete reads after the Update's save (so its recheck passes), commits under the lock and waits
		{"delete", &scenario{cinit: collInit(true), prog: []*fcall{mkCall(ct("upsert"), 0, base), mkCall(ct("delete-allow-missing"), 1, base), subCall(false, plain)}},
			[]int{2, 0, 0, 1}, probe{at: 4, holder: 0, other: 1, turnstile: true}},
		{"delete-other-id", &scenario{cinit: collInit(true), prog: []*fcall{mkCall(ct("update-other-id"), 0, base), mkCall(ct("delete-allow-missing"), 1, base), subCall(false, plain)}},
			[]int{2, 1, 0, 0}, probe{at: 4, holder: 0, other: 1, turnstile: true}},
	}
	for _, ps := range tprobes {
		blocked := false
		ps.pr.blocked = &blocked
		ps.sc.tags = []string{"probe:turnstile-" + ps.name}
		rr := runScheduleProbe(ps.sc, ps.prefix, lowest, &ps.pr)
		if rr.err == nil && !blocked {
			o.Directs = append(o.Directs, vcoq.Direct{
				What:   "turnstile not held (" + ps.name + "): with an earlier commit of the same resource still unpublished, a later commit was published first (publications must leave in commit order, or a subscriber's view can stay stale for ever)",
				Class:  "turnstile-not-held:" + ps.name,
				Replay: map[string]any{"program": jsProg(ps.sc), "schedule": rr.sched},
			})
		}
		emitCase(o, ps.sc, rr, []string{"turnstile-probe"})
	}
	// Subscribers WITHOUT backpressure (the default): Pull and PullID, the consumer receiving at chosen
	// points of the schedule (reader steps) and until nothing is offered once every call has returned.
	// What the bus hands to mergeCollectionExcess must be an edit script relative to the seed, what
	// the merger makes of it (ADD+REMOVE = nothing, REMOVE+ADD = REPLACE, REPLACE+REMOVE = REMOVE)
	// must reach the consumer, through PullID as well; every change received is compared with
	// Conc/LossyPipe.v and the fold of all of them with the final List.
	lossySub := func(pid bool, roi int, nrecv int) *fcall {
		ro := roVariants[roi]
		c := &fcall{kind: kSubL, ro: &ro, name: "pull-lossy", pid: pid, nrecv: nrecv}
		if pid {
			c.id, c.name = "a", "pull-id-lossy"
		}
		return c
	}
	type lossySpec struct {
		present bool
		writers []string
		chain   bool // the writers run one after the other (ONE writer issuing these calls)
		after   map[int][]int
		pid     bool
		ro      int
		nrecv   []int
	}
	lossySpecs := []lossySpec{
		// concurrent writers, the reader behind all the time / receiving once somewhere
		{present: false, writers: []string{"add", "delete-allow-missing"}, nrecv: []int{0, 1}},
		{present: false, writers: []string{"upsert", "delete-check"}, ro: 1, nrecv: []int{0}},
		{present: true, writers: []string{"delete-expected", "add"}, nrecv: []int{0, 1}},
		{present: true, writers: []string{"upsert"}, nrecv: []int{0, 1, 2, 3}},
		{present: true, writers: []string{"upsert-delta", "update-other-id"}, ro: 2, nrecv: []int{0}},
		// one writer, several calls on an id the view may already hold: delete / re-add sequences
		{present: true, chain: true, writers: []string{"delete-allow-missing", "add", "delete-allow-missing"}, nrecv: []int{0, 2}},
		{present: true, chain: true, writers: []string{"upsert", "delete-allow-missing", "add"}, nrecv: []int{0, 2}},
		{present: false, chain: true, writers: []string{"add", "delete-allow-missing", "add"}, ro: 1, nrecv: []int{0, 1}},
		{present: true, chain: true, writers: []string{"delete-expected", "upsert", "upsert-delta"}, nrecv: []int{0, 3}},
		// a commit published late (after a newer one) and then undone: Add a saved, b updated and published,
		// a's ADD published, a deleted
		{present: false, writers: []string{"add", "update-other-id", "delete-allow-missing"}, after: map[int][]int{2: {0}}, nrecv: []int{0}},
		// PullID over the same pipeline
		{present: true, pid: true, writers: []string{"upsert-delta"}, nrecv: []int{0, 1, 2}},
		{present: true, pid: true, writers: []string{"upsert", "delete-check"}, nrecv: []int{0}},
		{present: false, pid: true, writers: []string{"add", "delete-allow-missing"}, nrecv: []int{1}},
		{present: true, pid: true, chain: true, writers: []string{"delete-allow-missing", "add", "delete-allow-missing"}, nrecv: []int{0, 1}},
		{present: true, pid: true, chain: true, writers: []string{"upsert", "delete-allow-missing", "add"}, nrecv: []int{0, 1}},
		{present: false, pid: true, chain: true, writers: []string{"add", "delete-allow-missing", "add"}, ro: 1, nrecv: []int{0, 1}},
		{present: true, pid: true, chain: true, writers: []string{"delete-expected", "upsert", "upsert-delta"}, ro: 3, nrecv: []int{0, 2}},
	}
	for _, ls := range lossySpecs {
		for _, nrecv := range ls.nrecv {
			sc := &scenario{cinit: collInit(ls.present), after: ls.after}
			for t, n := range ls.writers {
				sc.prog = append(sc.prog, mkCall(ct(n), t, base))
				if ls.chain && t > 0 {
					if sc.after == nil {
						sc.after = map[int][]int{}
					}
					sc.after[t] = []int{t - 1}
				}
			}
			sc.prog = append(sc.prog, lossySub(ls.pid, ls.ro, nrecv))
			sc.tags = []string{"lossy", fmt.Sprintf("lossy-pull-id:%v", ls.pid), fmt.Sprintf("lossy-one-writer-chain:%v", ls.chain),
				fmt.Sprintf("lossy-reader-steps:%d", nrecv), "writers:" + strings.Join(ls.writers, "+")}
			exploreAll(sc, 0, func(rr *runResult) { emitCase(o, sc, rr, []string{"exhaustive"}) })
		}
	}
	// reader paces: receive some / pause / resume over two or three ids (pace.go)
	genPaces(o, r, tier, base)
	// a subscription opened while a Send is in flight (the publisher parked after it has copied the
	// listener list) on a bus that still holds a cancelled listener: the new listener must survive
	// the collection of the cancelled one and receive the next write
	for _, lossy := range []bool{false, true} {
		sub := subCall(false, roVariants[0])
		if lossy {
			sub = lossySub(false, 0, 0)
		}
		sc := &scenario{cancelledSub: true, cinit: collInit(true),
			prog: []*fcall{mkCall(ct("upsert"), 0, base), sub, mkCall(ct("update-other-id"), 2, base)},
			tags: []string{"subscribe-during-send", fmt.Sprintf("lossy:%v", lossy)}}
		blocked := false
		pr := probe{at: 2, holder: 0, other: 1, point: "bus.send.snapshot", blocked: &blocked}
		rr := runScheduleProbe(sc, []int{0, 0}, lowest, &pr)
		emitCase(o, sc, rr, []string{"targeted"})
	}
	// PullID: the subscription point is wherever its goroutine gets to open the inner Pull
	pidSpecs := []struct {
		present bool
		writers []string
		ro      int
	}{
		{true, []string{"upsert-delta"}, 0},
		{true, []string{"upsert"}, 1},
		{false, []string{"add"}, 2},
		{true, []string{"delete-expected"}, 0},
		{true, []string{"upsert", "delete-check"}, 0},
		{false, []string{"add", "delete-allow-missing"}, 0},
		{true, []string{"update-cas", "update-other-id"}, 3},
	}
	for _, ps := range pidSpecs {
		sc := &scenario{cinit: collInit(ps.present)}
		for t, n := range ps.writers {
			sc.prog = append(sc.prog, mkCall(ct(n), t, base))
		}
		ro := roVariants[ps.ro]
		sc.prog = append(sc.prog, &fcall{kind: kSubID, id: "a", ro: &ro, name: "pull-id"})
		sc.tags = []string{"pull-id", "writers:" + strings.Join(ps.writers, "+")}
		exploreAll(sc, 0, func(rr *runResult) { emitCase(o, sc, rr, []string{"exhaustive"}) })
	}
	// sampled: up to three writers and two subscribers
	n := 60
	if tier == "thorough" {
		n = 5000
	}
	for k := 0; k < n; k++ {
		value := r.Bool()
		sc := &scenario{vinit: &vinit0, cinit: collInit(r.Bool())}
		nw := 1 + r.Intn(3)
		for t := 0; t < nw; t++ {
			if value {
				sc.prog = append(sc.prog, mkCall(valueTmpls[r.Intn(len(valueTmpls))], t, base))
			} else {
				sc.prog = append(sc.prog, mkCall(collTmpls[r.Intn(len(collTmpls))], t, base))
			}
		}
		ns := 1 + r.Intn(2)
		nl := 0
		for s := 0; s < ns; s++ {
			if !value && r.Chance(50) {
				sc.prog = append(sc.prog, lossySub(r.Chance(40), r.Intn(len(roVariants)), r.Intn(7)))
				nl++
				continue
			}
			sc.prog = append(sc.prog, subCall(value, roVariants[r.Intn(len(roVariants))]))
		}
		sc.tags = []string{fmt.Sprintf("sampled:%dw%ds", nw, ns), fmt.Sprintf("sampled-lossy:%d", nl)}
		rr := runSchedule(sc, nil, func(alive []int) int { return alive[r.Intn(len(alive))] })
		emitCase(o, sc, rr, nil)
	}
	nfree := 400
	if tier == "thorough" {
		nfree = 6000
	}
	stress03(o, r, base, nfree)
	return nil
}

func findTmpl(l []tmpl, name string) tmpl {
	for _, t := range l {
		if t.name == name {
			return t
		}
	}
	panic("no template " + name)
}
