package main

// Translator "c02-atomic": reads pkg/resource/{atomic,collection,value}.go of the tree under check and
// emits coq/theories/Gen/C02Atomic.v -- for GetAndUpdate, Value.set, Collection.Update and
// Collection.Delete (and the three closures Update / set hand to GetAndUpdate) the protocol events in
// source order: calls of get / change / save, the caller's precondition callback, accesses of byId /
// value / commits, bus.Send, the turnstile, the verifhook yield points; each with the mode the
// resource's RWMutex is held in THERE and the number of the critical section it belongs to (a new
// number at every Lock / RLock).  Conc/AtomicTable.v re-proves over this table what makes the atomic
// steps of Conc/Lts.v atomic: the re-read, the re-validation and the save are ONE exclusive section;
// the change function, the callbacks and every yield point run with no lock; Delete's recheck, delete,
// commit number and publication are one exclusive section.
//
// The walk: statements in order; X.mu.Lock / RLock / Unlock / RUnlock change the state (defer Unlock
// does not: the lock is held to the end); the branches of an if are walked with copies of the state
// and a branch that ends in return / continue / break / panic does not flow on; loop bodies are walked
// once; function literals are not entered, except the three arguments of GetAndUpdate, which are
// emitted as functions of their own ("Collection.Update/get" ...).

import (
	"fmt"
	"go/ast"
	"go/parser"
	"go/token"
	"os"
	"path/filepath"
	"sort"
	"strings"

	"github.com/smart-core-os/sc-golang/verifharness/vcoq"
	"github.com/smart-core-os/sc-golang/verifharness/vh"
)

func init() { vh.RegisterTranslator("c02-atomic", translateAtomic) }

func atomicRepo() string {
	if d := os.Getenv("VERIF_REPO"); d != "" {
		return d
	}
	return "/repo"
}

type arow struct {
	fn, kind, name, mode string
	sec, line            int
}

type astate struct {
	mode string // "", "R", "X", "?"
	sec  int
}

type awalker struct {
	fset    *token.FileSet
	fn      string
	nextSec int
	rows    []arow
	lits    []struct {
		name string
		fl   *ast.FuncLit
	}
}

func chain(e ast.Expr) []string {
	switch x := e.(type) {
	case *ast.Ident:
		return []string{x.Name}
	case *ast.SelectorExpr:
		if p := chain(x.X); p != nil {
			return append(p, x.Sel.Name)
		}
	case *ast.UnaryExpr:
		return chain(x.X)
	case *ast.ParenExpr:
		return chain(x.X)
	}
	return nil
}

func last(l []string) string {
	if len(l) == 0 {
		return ""
	}
	return l[len(l)-1]
}

// lockOp: X.mu.Lock() etc. -> the operation, for the mutex named mu (field or parameter)
func lockOp(call *ast.CallExpr) string {
	c := chain(call.Fun)
	if len(c) >= 2 && c[len(c)-2] == "mu" {
		switch last(c) {
		case "Lock", "RLock", "Unlock", "RUnlock":
			return last(c)
		}
	}
	return ""
}

func (w *awalker) emit(st astate, kind, name string, pos token.Pos) {
	w.rows = append(w.rows, arow{w.fn, kind, name, st.mode, st.sec, w.fset.Position(pos).Line})
}

var tracked = map[string]bool{"byId": true, "value": true, "commits": true, "changeTime": true}

// exprs: the events inside one expression / simple statement, in source order
func (w *awalker) exprs(n ast.Node, st astate) {
	if n == nil {
		return
	}
	written := map[ast.Expr]bool{}
	ast.Inspect(n, func(x ast.Node) bool {
		switch e := x.(type) {
		case *ast.FuncLit:
			return false
		case *ast.AssignStmt:
			for _, l := range e.Lhs {
				t := l
				if ix, ok := t.(*ast.IndexExpr); ok {
					t = ix.X
				}
				if c := chain(t); len(c) >= 2 && tracked[last(c)] {
					w.emit(st, "write", last(c), l.Pos())
					written[t] = true
				}
			}
		case *ast.IncDecStmt:
			if c := chain(e.X); len(c) >= 2 && tracked[last(c)] {
				w.emit(st, "write", last(c), e.Pos())
				written[e.X] = true
			}
		case *ast.CallExpr:
			c := chain(e.Fun)
			switch {
			case len(c) == 1 && (c[0] == "get" || c[0] == "change" || c[0] == "save"):
				w.emit(st, "call", c[0], e.Pos())
			case len(c) == 1 && c[0] == "delete" && len(e.Args) == 2:
				if a := chain(e.Args[0]); len(a) >= 2 && tracked[last(a)] {
					w.emit(st, "write", last(a), e.Pos())
					written[e.Args[0]] = true
				}
			case len(c) == 1 && c[0] == "GetAndUpdate":
				w.emit(st, "call", "GetAndUpdate", e.Pos())
				for i, nm := range []string{"", "get", "change", "save"} {
					if i < len(e.Args) && nm != "" {
						if fl, ok := e.Args[i].(*ast.FuncLit); ok {
							w.lits = append(w.lits, struct {
								name string
								fl   *ast.FuncLit
							}{w.fn + "/" + nm, fl})
						}
					}
				}
			case len(c) == 2 && c[0] == "verifhook" && c[1] == "Yield" && len(e.Args) == 1:
				if bl, ok := e.Args[0].(*ast.BasicLit); ok {
					w.emit(st, "yield", strings.Trim(bl.Value, `"`), e.Pos())
				}
			case len(c) == 2 && c[0] == "proto" && c[1] == "Equal":
				w.emit(st, "call", "proto.Equal", e.Pos())
			case len(c) >= 2 && last(c) == "expectedCheck":
				w.emit(st, "call", "expectedCheck", e.Pos())
			case len(c) >= 3 && c[len(c)-2] == "bus" && last(c) == "Send":
				w.emit(st, "call", "bus.Send", e.Pos())
			case len(c) >= 3 && c[len(c)-2] == "publishing":
				w.emit(st, "call", "publishing."+last(c), e.Pos())
			case len(c) >= 2 && (last(c) == "idCallback" || last(c) == "createdCallback"):
				w.emit(st, "call", last(c), e.Pos())
			}
		case *ast.SelectorExpr:
			// the configured equivalence (the Pull comparer) anywhere in a selector chain, e.g.
			// r.equivalence != nil, r.equivalence.Compare(..): must not occur in the write path at all
			for _, nm := range chain(e) {
				if nm == "equivalence" {
					w.emit(st, "read", "equivalence", e.Pos())
					break
				}
			}
			if c := chain(e); len(c) >= 2 && tracked[last(c)] && !written[e] {
				w.emit(st, "read", last(c), e.Pos())
			}
			return false
		}
		return true
	})
}

func terminates(b *ast.BlockStmt) bool {
	if b == nil || len(b.List) == 0 {
		return false
	}
	switch s := b.List[len(b.List)-1].(type) {
	case *ast.ReturnStmt:
		return true
	case *ast.BranchStmt:
		return s.Tok == token.CONTINUE || s.Tok == token.BREAK || s.Tok == token.GOTO
	case *ast.ExprStmt:
		if call, ok := s.X.(*ast.CallExpr); ok {
			if c := chain(call.Fun); len(c) == 1 && c[0] == "panic" {
				return true
			}
		}
	}
	return false
}

func merge(a, b astate) astate {
	if a == b {
		return a
	}
	return astate{"?", 0}
}

func (w *awalker) block(b *ast.BlockStmt, st astate) astate {
	if b == nil {
		return st
	}
	for _, s := range b.List {
		st = w.stmt(s, st)
	}
	return st
}

func (w *awalker) stmt(s ast.Stmt, st astate) astate {
	switch x := s.(type) {
	case *ast.ExprStmt:
		if call, ok := x.X.(*ast.CallExpr); ok {
			switch lockOp(call) {
			case "Lock":
				w.nextSec++
				st = astate{"X", w.nextSec}
				w.emit(st, "lock", "Lock", x.Pos())
				return st
			case "RLock":
				w.nextSec++
				st = astate{"R", w.nextSec}
				w.emit(st, "lock", "RLock", x.Pos())
				return st
			case "Unlock", "RUnlock":
				w.emit(st, "lock", lockOp(call), x.Pos())
				return astate{"", 0}
			}
		}
		w.exprs(x, st)
	case *ast.DeferStmt:
		if lockOp(x.Call) != "" {
			w.emit(st, "lock", "defer "+lockOp(x.Call), x.Pos())
			return st
		}
		// other deferred calls run at the end: not part of the protocol order
	case *ast.BlockStmt:
		return w.block(x, st)
	case *ast.IfStmt:
		if x.Init != nil {
			st = w.stmt(x.Init, st)
		}
		w.exprs(x.Cond, st)
		a := w.block(x.Body, st)
		b := st
		elseTerm := false
		switch e := x.Else.(type) {
		case *ast.BlockStmt:
			b = w.block(e, st)
			elseTerm = terminates(e)
		case *ast.IfStmt:
			b = w.stmt(e, st)
		}
		switch {
		case terminates(x.Body) && elseTerm:
			return st
		case terminates(x.Body):
			return b
		case elseTerm:
			return a
		}
		return merge(a, b)
	case *ast.ForStmt:
		if x.Init != nil {
			st = w.stmt(x.Init, st)
		}
		w.exprs(x.Cond, st)
		w.block(x.Body, st)
	case *ast.RangeStmt:
		w.exprs(x.X, st)
		w.block(x.Body, st)
	case *ast.SwitchStmt, *ast.TypeSwitchStmt, *ast.SelectStmt:
		w.exprs(x, st)
	default:
		w.exprs(x, st)
	}
	return st
}

func translateAtomic(outDir string) error {
	fset := token.NewFileSet()
	var rows []arow
	want := map[string]bool{"GetAndUpdate": true, "Value.set": true, "Collection.Update": true, "Collection.Delete": true}
	seen := map[string]bool{}
	for _, f := range []string{"atomic.go", "value.go", "collection.go"} {
		file, err := parser.ParseFile(fset, filepath.Join(atomicRepo(), "pkg", "resource", f), nil, 0)
		if err != nil {
			return err
		}
		for _, d := range file.Decls {
			fd, ok := d.(*ast.FuncDecl)
			if !ok || fd.Body == nil {
				continue
			}
			name := fd.Name.Name
			if fd.Recv != nil && len(fd.Recv.List) == 1 {
				t := fd.Recv.List[0].Type
				if st, ok := t.(*ast.StarExpr); ok {
					t = st.X
				}
				if id, ok := t.(*ast.Ident); ok {
					name = id.Name + "." + name
				}
			}
			if !want[name] {
				continue
			}
			seen[name] = true
			w := &awalker{fset: fset, fn: name}
			w.block(fd.Body, astate{})
			rows = append(rows, w.rows...)
			for _, l := range w.lits {
				lw := &awalker{fset: fset, fn: l.name}
				lw.block(l.fl.Body, astate{})
				rows = append(rows, lw.rows...)
			}
		}
	}
	for n := range want {
		if !seen[n] {
			return fmt.Errorf("c02-atomic: function %s not found in pkg/resource", n)
		}
	}
	sort.SliceStable(rows, func(i, j int) bool {
		if rows[i].fn != rows[j].fn {
			return rows[i].fn < rows[j].fn
		}
		return false // source order within a function
	})
	var b strings.Builder
	b.WriteString("(* GENERATED by harness/c02 (translator \"c02-atomic\") from pkg/resource/{atomic,value,collection}.go of the\n   tree under check. Do not edit. *)\n")
	b.WriteString("From SC Require Import Base.Prelude Conc.AtomicDefs.\nLocal Open Scope string_scope.\n\nDefinition atomic_rows : list arow := [\n")
	for i, r := range rows {
		mode := map[string]string{"": "ANone", "R": "ARead", "X": "AExcl", "?": "AUnknown"}[r.mode]
		sep := ";"
		if i == len(rows)-1 {
			sep = ""
		}
		fmt.Fprintf(&b, "  mkARow %s %s %s %s %s %s%s\n", vcoq.Str(r.fn), vcoq.Str(r.kind), vcoq.Str(r.name), mode, vcoq.Z(int64(r.sec)), vcoq.Z(int64(r.line)), sep)
	}
	b.WriteString("].\n")
	return os.WriteFile(filepath.Join(outDir, "C02Atomic.v"), []byte(b.String()), 0o644)
}
