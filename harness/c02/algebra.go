package main

// The Go side of the flat message algebra of coq/theories/Resource/Flat.v (copied from
// harness/cres, trimmed to what concurrent callers use): three scalar fields of TestAllTypes,
// the interceptor / check families, write and read options, the fake clock, Coq printers.

import (
	"fmt"
	"sync"
	"time"

	"github.com/smart-core-os/sc-api/go/types"
	"github.com/smart-core-os/sc-golang/internal/testproto"
	"github.com/smart-core-os/sc-golang/pkg/resource"
	"github.com/smart-core-os/sc-golang/verifharness/vcoq"
	"google.golang.org/grpc/codes"
	"google.golang.org/grpc/status"
	"google.golang.org/protobuf/proto"
	"google.golang.org/protobuf/types/known/fieldmaskpb"
)

type fmsg struct{ a, b, c int64 }

type fld int

const (
	fa fld = iota
	fb
	fc
)

var fldCoq = []string{"Fa", "Fb", "Fc"}
var fldPath = []string{"default_int32", "default_int64", "default_uint32"}

func toProto(m fmsg) *testproto.TestAllTypes {
	return &testproto.TestAllTypes{DefaultInt32: int32(m.a), DefaultInt64: m.b, DefaultUint32: uint32(m.c)}
}
func fromProto(p proto.Message) *fmsg {
	if p == nil {
		return nil
	}
	t, ok := p.(*testproto.TestAllTypes)
	if !ok || t == nil {
		return nil
	}
	chk := &testproto.TestAllTypes{DefaultInt32: t.DefaultInt32, DefaultInt64: t.DefaultInt64, DefaultUint32: t.DefaultUint32}
	if !proto.Equal(chk, t) {
		panic(fmt.Sprintf("message outside the flat algebra: %v", t))
	}
	return &fmsg{int64(t.DefaultInt32), t.DefaultInt64, int64(t.DefaultUint32)}
}
func getF(p proto.Message, f fld) int64 {
	m := fromProto(p)
	if m == nil {
		return 0
	}
	switch f {
	case fa:
		return m.a
	case fb:
		return m.b
	case fc:
		return m.c
	}
	return 0
}
func setF(p proto.Message, f fld, v int64) {
	t := p.(*testproto.TestAllTypes)
	switch f {
	case fa:
		t.DefaultInt32 = int32(v)
	case fb:
		t.DefaultInt64 = v
	case fc:
		t.DefaultUint32 = uint32(v)
	}
}
func coqMsg(m fmsg) string { return vcoq.App("mkF", vcoq.Z(m.a), vcoq.Z(m.b), vcoq.Z(m.c)) }
func coqOptMsg(m *fmsg) string {
	if m == nil {
		return "None"
	}
	return vcoq.Some(coqMsg(*m))
}
func jsMsg(m *fmsg) any {
	if m == nil {
		return nil
	}
	return []int64{m.a, m.b, m.c}
}
func coqFlds(l []fld) string {
	it := make([]string, len(l))
	for i, f := range l {
		it[i] = fldCoq[f]
	}
	return vcoq.List(it)
}
func coqOptFlds(l []fld, present bool) string {
	if !present {
		return "None"
	}
	return vcoq.Some(coqFlds(l))
}
func maskOf(l []fld) *fieldmaskpb.FieldMask {
	fm := &fieldmaskpb.FieldMask{Paths: []string{}}
	for _, f := range l {
		fm.Paths = append(fm.Paths, fldPath[f])
	}
	return fm
}
func pathsOf(l []fld) []string {
	out := []string{}
	for _, f := range l {
		out = append(out, fldPath[f])
	}
	return out
}
func jsFlds(l []fld) any {
	out := []string{}
	for _, f := range l {
		out = append(out, fldPath[f])
	}
	return out
}

// fakeClock: the n-th reading is 1000 + 10 n ns (Flat.fclock)
type fakeClock struct {
	mu sync.Mutex
	n  int64
}

func (c *fakeClock) Now() time.Time {
	c.mu.Lock()
	defer c.mu.Unlock()
	t := time.Unix(0, 1000+10*c.n)
	c.n++
	return t
}

// ---------- callback families ----------

type icpt struct {
	kind int // 0 IAddOld, 1 ISetField, 2 ICopyOld
	f    fld
	k    int64
}

func (i *icpt) coq() string {
	switch i.kind {
	case 0:
		return vcoq.App("IAddOld", fldCoq[i.f])
	case 1:
		return vcoq.App("ISetField", fldCoq[i.f], vcoq.Z(i.k))
	}
	return vcoq.App("ICopyOld", fldCoq[i.f])
}
func (i *icpt) fn() resource.UpdateInterceptor {
	return func(old, target proto.Message) {
		switch i.kind {
		case 0:
			setF(target, i.f, getF(target, i.f)+getF(old, i.f))
		case 1:
			setF(target, i.f, i.k)
		case 2:
			setF(target, i.f, getF(old, i.f))
		}
	}
}

type chk struct {
	kind int // 0 CEq, 1 CFail, 2 CPresent
	f    fld
	k    int64
	code codes.Code
}

func (c *chk) coq() string {
	switch c.kind {
	case 0:
		return vcoq.App("CEq", fldCoq[c.f], vcoq.Z(c.k), vcoq.Z(int64(c.code)))
	case 1:
		return vcoq.App("CFail", vcoq.Z(int64(c.code)))
	}
	return vcoq.App("CPresent", vcoq.Z(int64(c.code)))
}
func (c *chk) fn() func(proto.Message) error {
	return func(old proto.Message) error {
		switch c.kind {
		case 0:
			if getF(old, c.f) != c.k {
				return status.Error(c.code, "check")
			}
		case 1:
			return status.Error(c.code, "check")
		case 2:
			if fromProto(old) == nil {
				return status.Error(c.code, "check")
			}
		}
		return nil
	}
}

// ---------- write options ----------

type fwo struct {
	time          *int64
	update        []fld
	hasUpdate     bool
	expected      *fmsg
	expectAbsent  bool
	check         *chk
	allowMissing  bool
	before, after *icpt
	create        bool
	// WithCreatedCallback / WithGenIDIfAbsent / WithIDCallback: the callbacks themselves are attached by
	// world.exec (they log into the fcall), opts() leaves them out
	createdCb, genID, idCb bool
	// WithMoreWritablePaths / WithAllFieldsWritable: only matter on a resource constructed with writable fields
	moreWritable    []fld
	hasMoreWritable bool
	allWritable     bool
}

func (o *fwo) coq() string {
	opt := func(present bool, s func() string) string {
		if !present {
			return "None"
		}
		return vcoq.Some(s())
	}
	return vcoq.App("mkFWO",
		vcoq.OptZ(o.time),
		coqOptFlds(o.update, o.hasUpdate), "None", coqOptFlds(o.moreWritable, o.hasMoreWritable),
		vcoq.Bool(o.allWritable), coqOptMsg(o.expected), vcoq.Bool(o.expectAbsent),
		opt(o.check != nil, func() string { return o.check.coq() }), vcoq.Bool(o.allowMissing),
		opt(o.before != nil, func() string { return o.before.coq() }),
		opt(o.after != nil, func() string { return o.after.coq() }),
		vcoq.Bool(o.create), vcoq.Bool(o.createdCb), vcoq.Bool(o.genID), vcoq.Bool(o.idCb))
}
func (o *fwo) js() any {
	m := map[string]any{}
	if o.time != nil {
		m["write_time"] = *o.time
	}
	if o.hasUpdate {
		m["update_mask"] = jsFlds(o.update)
	}
	if o.hasMoreWritable {
		m["more_writable_paths"] = jsFlds(o.moreWritable)
	}
	if o.allWritable {
		m["all_fields_writable"] = true
	}
	if o.expected != nil {
		m["expected"] = jsMsg(o.expected)
	}
	if o.expectAbsent {
		m["expect_absent"] = true
	}
	if o.check != nil {
		m["check"] = o.check.coq()
	}
	if o.allowMissing {
		m["allow_missing"] = true
	}
	if o.createdCb {
		m["created_callback"] = true
	}
	if o.genID {
		m["gen_id_if_absent"] = true
	}
	if o.idCb {
		m["id_callback"] = true
	}
	if o.before != nil {
		m["before"] = o.before.coq()
	}
	if o.after != nil {
		m["after"] = o.after.coq()
	}
	if o.create {
		m["create_if_absent"] = true
	}
	return m
}
func (o *fwo) opts() []resource.WriteOption {
	var out []resource.WriteOption
	if o.time != nil {
		out = append(out, resource.WithWriteTime(time.Unix(0, *o.time)))
	}
	if o.hasUpdate {
		out = append(out, resource.WithUpdateMask(maskOf(o.update)))
	}
	if o.expected != nil {
		out = append(out, resource.WithExpectedValue(toProto(*o.expected)))
	}
	if o.expectAbsent {
		out = append(out, resource.WithExpectAbsent())
	}
	if o.check != nil {
		out = append(out, resource.WithExpectedCheck(o.check.fn()))
	}
	if o.allowMissing {
		out = append(out, resource.WithAllowMissing(true))
	}
	if o.before != nil {
		out = append(out, resource.InterceptBefore(o.before.fn()))
	}
	if o.after != nil {
		out = append(out, resource.InterceptAfter(o.after.fn()))
	}
	if o.create {
		out = append(out, resource.WithCreateIfAbsent())
	}
	if o.hasMoreWritable {
		out = append(out, resource.WithMoreWritablePaths(pathsOf(o.moreWritable)...))
	}
	if o.allWritable {
		out = append(out, resource.WithAllFieldsWritable())
	}
	return out
}

// ---------- read options ----------

type fro struct {
	mask        []fld
	hasMask     bool
	updatesOnly bool
}

func (r *fro) coq() string {
	return vcoq.App("mkFRO", coqOptFlds(r.mask, r.hasMask), vcoq.Bool(r.updatesOnly), "None")
}
func (r *fro) opts() []resource.ReadOption {
	var out []resource.ReadOption
	if r.hasMask {
		out = append(out, resource.WithReadMask(maskOf(r.mask)))
	}
	out = append(out, resource.WithBackpressure(true), resource.WithUpdatesOnly(r.updatesOnly))
	return out
}
func (r *fro) js() any {
	m := map[string]any{"updates_only": r.updatesOnly}
	if r.hasMask {
		m["read_mask"] = jsFlds(r.mask)
	}
	return m
}

func code(err error) int64 {
	if err == nil {
		return 0
	}
	return int64(status.Code(err))
}

func kindCode(t types.ChangeType) int64 {
	switch t {
	case types.ChangeType_ADD:
		return 1
	case types.ChangeType_UPDATE:
		return 2
	case types.ChangeType_REMOVE:
		return 3
	case types.ChangeType_REPLACE: // only ever synthesised by mergeChanges
		return 4
	}
	return 10 + int64(t)
}

type kv struct {
	id string
	m  fmsg
}

func coqKVs(l []kv) string {
	it := make([]string, len(l))
	for i, e := range l {
		it[i] = vcoq.Pair(vcoq.Str(e.id), coqMsg(e.m))
	}
	return vcoq.List(it)
}
func jsKVs(l []kv) any {
	out := []any{}
	for _, e := range l {
		out = append(out, map[string]any{"id": e.id, "value": jsMsg(&e.m)})
	}
	return out
}

// stream events as the subscriber saw them (Resource/Judge.v mkOC / mkOV)
type ochange struct {
	id         string
	t          int64
	kind       int64
	old, new_  *fmsg
	seed, last bool
}

func coqOChange(c ochange) string {
	return vcoq.App("mkOC", vcoq.Str(c.id), vcoq.Z(c.t), vcoq.Z(c.kind), coqOptMsg(c.old), coqOptMsg(c.new_), vcoq.Bool(c.seed), vcoq.Bool(c.last))
}
func jsOChange(c ochange) any {
	return map[string]any{"id": c.id, "time": c.t, "kind": c.kind, "old": jsMsg(c.old), "new": jsMsg(c.new_), "seed": c.seed, "last_seed": c.last}
}

type ovchange struct {
	v          fmsg
	t          int64
	seed, last bool
}

func coqOVChange(c ovchange) string {
	return vcoq.App("mkOV", coqMsg(c.v), vcoq.Z(c.t), vcoq.Bool(c.seed), vcoq.Bool(c.last))
}
func jsOVChange(c ovchange) any {
	return map[string]any{"value": jsMsg(&c.v), "time": c.t, "seed": c.seed, "last_seed": c.last}
}
