package main

// C02: generated ids (WithGenIDIfAbsent), id / created callbacks, a non-injective id interceptor and
// sequential callers under forced schedules -- compared with Conc/GenLts.v (ccase CaseGen).

import (
	"encoding/base64"
	"fmt"
	"sort"

	"github.com/smart-core-os/sc-golang/verifharness/vcoq"
)

// encCands: the ten candidates GenerateUniqueId computes from a gidRNG loaded with raw (the i-th read
// asks for 6+i bytes; gidRNG fills with 'A' and copies the prepared bytes over)
func encCands(raw [][]byte) []string {
	out := make([]string, 10)
	for i := 0; i < 10; i++ {
		buf := make([]byte, 6+i)
		for k := range buf {
			buf[k] = 0x41
		}
		if i < len(raw) {
			copy(buf, raw[i])
		}
		out[i] = base64.RawURLEncoding.EncodeToString(buf)
	}
	return out
}

func enc1(raw string, i int) string { // the candidate read number i yields for these bytes
	l := make([][]byte, i+1)
	l[i] = []byte(raw)
	return encCands(l)[i]
}

func coqStrs(l []string) string {
	it := make([]string, len(l))
	for i, s := range l {
		it[i] = vcoq.Str(s)
	}
	return vcoq.List(it)
}

func emitGen(o *vcoq.Out, sc *scenario, r *runResult, extraTags []string) {
	if r.err != nil {
		o.Directs = append(o.Directs, vcoq.Direct{
			What:   "forced schedule could not be executed on the implementation: " + r.err.Error(),
			Class:  "gate-timeout",
			Replay: map[string]any{"program": jsProg(sc), "schedule": r.sched},
		})
		return
	}
	if r.stray != "" {
		o.Directs = append(o.Directs, vcoq.Direct{What: r.stray, Class: "stray-item",
			Replay: map[string]any{"id_interceptor_lower": sc.idLower, "program": jsProg(sc), "schedule": r.sched}})
		return
	}
	prog := make([]string, len(sc.prog))
	cands := make([]string, len(sc.prog))
	reported := make([]string, len(sc.prog))
	created := make([]string, len(sc.prog))
	jc, jr, jcr := []any{}, []any{}, []any{}
	tags := append([]string{}, sc.tags...)
	tags = append(tags, extraTags...)
	for i, c := range sc.prog {
		prog[i] = c.coq()
		cs := []string{}
		if c.o != nil && c.o.genID {
			cs = encCands(c.cands)
		}
		cands[i] = coqStrs(cs)
		reported[i] = coqStrs(c.reported)
		created[i] = vcoq.Z(int64(c.created))
		jc, jr, jcr = append(jc, cs), append(jr, append([]string{}, c.reported...)), append(jcr, c.created)
		if c.o != nil && c.o.genID {
			tags = append(tags, fmt.Sprintf("gen:%s:reported%d:code%d", c.name, len(c.reported), r.results[i].code))
			if len(c.reported) == 1 {
				for k, x := range cs {
					if x == c.reported[0] {
						tags = append(tags, fmt.Sprintf("gen:candidate-used:%d", k))
					}
				}
			}
		}
		if c.o != nil && c.o.createdCb {
			tags = append(tags, fmt.Sprintf("created-cb:%d:code%d", c.created, r.results[i].code))
		}
	}
	res := make([]string, len(r.results))
	jres := []any{}
	lost := false
	for i, x := range r.results {
		res[i] = coqOut(x)
		jres = append(jres, map[string]any{"msg": jsMsg(x.msg), "code": x.code})
		tags = append(tags, fmt.Sprintf("result:%s:code%d", sc.prog[i].name, x.code))
		if x.code == 10 || x.code == 14 {
			lost = true
		}
	}
	if lost {
		tags = append(tags, "lost-race")
	}
	cinit := make([]string, len(sc.cinit))
	jinit := []any{}
	for i, it := range sc.cinit {
		cinit[i] = vcoq.Pair(vcoq.Pair(vcoq.Str(it.id), coqMsg(it.m)), vcoq.Z(it.t))
		jinit = append(jinit, map[string]any{"id": it.id, "value": jsMsg(&it.m), "time": it.t})
	}
	idf := "None"
	if sc.idLower {
		idf = "(Some IdLower)"
	}
	term := vcoq.App("CaseGen", idf, vcoq.List(cinit), vcoq.List(prog), vcoq.List(cands), coqNats(r.sched),
		vcoq.List(res), vcoq.List(reported), vcoq.List(created), coqKVs(r.finalC))
	tags = append(tags, fmt.Sprintf("threads:%d", len(sc.prog)), fmt.Sprintf("steps:%d", len(r.sched)))
	o.Add(vcoq.Case{
		Coq: term,
		JSON: map[string]any{"id_interceptor_lower": sc.idLower, "collection_initial": jinit, "program": jsProg(sc),
			"candidates": jc, "schedule": r.sched, "results": jres, "reported_ids": jr, "created_callbacks": jcr,
			"final_list": jsKVs(r.finalC)},
		Key:        term,
		NonTrivial: len(sc.prog) >= 2,
		Tags:       tags,
	})
}

func sortedInit(l []initItem) []initItem {
	sort.Slice(l, func(i, j int) bool { return l[i].id < l[j].id })
	return l
}

func genIDCases(o *vcoq.Out, r *vcoq.Rand, tier string, base int64) {
	A, B, C, D := "idAAAA", "idBBBB0", "idCCCC00", "idDDDD0"
	eA := enc1(A, 0)
	genAdd := func(t int, raw ...string) *fcall {
		c := &fcall{kind: kAdd, id: "", msg: fmsg{base + 60 + int64(t), 0, 0}, name: "add-gen",
			o: &fwo{genID: true, idCb: true, createdCb: true}}
		for _, x := range raw {
			c.cands = append(c.cands, []byte(x))
		}
		return c
	}
	genUpsert := func(t int, create bool, raw ...string) *fcall {
		c := &fcall{kind: kUpdate, id: "", msg: fmsg{base + 70 + int64(t), 0, 0}, name: fmt.Sprintf("update-gen-create:%v", create),
			o: &fwo{genID: true, idCb: true, createdCb: true, create: create}}
		for _, x := range raw {
			c.cands = append(c.cands, []byte(x))
		}
		return c
	}
	del := func(id string) *fcall { return &fcall{kind: kDelete, id: id, o: &fwo{}, name: "delete-plain"} }
	add := func(t int, id string) *fcall {
		return &fcall{kind: kAdd, id: id, msg: fmsg{base + 80 + int64(t), 0, 0}, o: &fwo{createdCb: true}, name: "add-cb"}
	}
	upsertCb := func(t int, id string) *fcall {
		return &fcall{kind: kUpdate, id: id, msg: fmsg{base + 90 + int64(t), 0, 0}, o: &fwo{create: true, createdCb: true}, name: "upsert-cb"}
	}
	deltaCb := func(t int, id string) *fcall {
		return &fcall{kind: kUpdate, id: id, msg: fmsg{1 + int64(t), 0, 0}, o: &fwo{create: true, createdCb: true, before: &icpt{kind: 0, f: fa}}, name: "upsert-delta-cb"}
	}
	other := []initItem{{"b", fmsg{2, 2, 0}, 310}}
	withA := sortedInit([]initItem{{eA, fmsg{7, 0, 0}, 320}, {"b", fmsg{2, 2, 0}, 310}})
	var scs []*scenario
	mk := func(init []initItem, tag string, prog ...*fcall) *scenario {
		sc := &scenario{cinit: init, prog: prog, tags: []string{"generated-id", "gen-scenario:" + tag}}
		scs = append(scs, sc)
		return sc
	}
	mk(other, "two-gen-adds-same-first", genAdd(0, A, B, C), genAdd(1, A, D))
	mk(other, "two-gen-adds-different", genAdd(0, A, B), genAdd(1, D, A))
	// the first candidate is stored; a concurrent Delete frees it: the reference asked at the write would
	// pick the first, the code keeps the second
	mk(withA, "first-candidate-freed-by-delete", genAdd(0, A, B), del(eA))
	mk(other, "gen-add+given-add-of-candidate", genAdd(0, A, B), add(1, eA))
	mk(other, "gen-upsert+given-upsert-of-candidate", genUpsert(0, true, A, B), upsertCb(1, eA))
	mk(other, "gen-update-no-create", genUpsert(0, false, A, B), add(1, eA))
	// ten unusable candidates: Aborted; a concurrent Delete of one of them may let the call through
	{
		raw := []string{"c0AAAA", "c1AAAA", "c2AAAA", "c3AAAA", "c4AAAA", "c5AAAA", "c6AAAA", "c7AAAA", "c8AAAA", "c9AAAA"}
		rawb := make([][]byte, len(raw))
		for i, x := range raw {
			rawb[i] = []byte(x)
		}
		init := []initItem{}
		for i, id := range encCands(rawb) {
			init = append(init, initItem{id, fmsg{int64(i), 0, 0}, 400 + int64(i)})
		}
		mk(sortedInit(init), "ten-candidates-taken", genAdd(0, raw...), del(encCands(rawb)[9]))
		init2 := append([]initItem{}, init...)
		mk(sortedInit(init2), "ten-candidates-taken-first-freed", genAdd(0, raw...), del(encCands(rawb)[0]))
	}
	// created callback on the SECOND read: the item read at first is deleted meanwhile
	mk(sortedInit([]initItem{{"a", fmsg{0, 0, 0}, 300}, {"b", fmsg{2, 2, 0}, 310}}), "created-on-second-read-empty-body", upsertCb(0, "a"), del("a"))
	mk(sortedInit([]initItem{{"a", fmsg{1, 0, 0}, 300}, {"b", fmsg{2, 2, 0}, 310}}), "created-on-second-read", deltaCb(0, "a"), del("a"))
	mk(other, "two-upserts-created-cb", deltaCb(0, "a"), deltaCb(1, "a"))
	// a non-injective id interceptor: ids differing in case are one stored id
	{
		sc := mk(other, "lower:add-A+add-a", add(0, "Ax"), add(1, "aX"))
		sc.idLower = true
		sc = mk(sortedInit([]initItem{{"ax", fmsg{1, 0, 0}, 300}, {"b", fmsg{2, 2, 0}, 310}}), "lower:delta-A+delete-a", deltaCb(0, "AX"), del("Ax"))
		sc.idLower = true
		// candidates that differ in case only: "AAAAAAAA" (six zero bytes) and "aaaaaaaa"
		zero := string([]byte{0, 0, 0, 0, 0, 0})
		lowa := string([]byte{0x69, 0xa6, 0x9a, 0x69, 0xa6, 0x9a})
		sc = mk(other, "lower:gen-candidates-differ-in-case", genAdd(0, zero, B), genAdd(1, lowa, D))
		sc.idLower = true
	}
	for _, sc := range scs {
		sc := sc
		exploreAll(sc, 0, func(rr *runResult) { emitGen(o, sc, rr, []string{"exhaustive-2"}) })
	}
	// sequential callers: thread 2 is the second call of the caller of thread 0
	{
		sc := &scenario{cinit: other, tags: []string{"generated-id", "gen-scenario:caller[add;delete]+add", "sequential-caller"},
			prog: []*fcall{add(0, "a"), add(1, "a"), del("a")}, after: map[int][]int{2: {0}}}
		exploreAll(sc, 0, func(rr *runResult) { emitGen(o, sc, rr, []string{"exhaustive-3-chain"}) })
		sc2 := &scenario{cinit: sortedInit([]initItem{{"a", fmsg{5, 0, 0}, 300}, {"b", fmsg{2, 2, 0}, 310}}),
			tags: []string{"generated-id", "gen-scenario:caller[delta;delta]+delta", "sequential-caller"},
			prog: []*fcall{deltaCb(0, "a"), deltaCb(1, "a"), deltaCb(2, "a")}, after: map[int][]int{2: {0}}}
		exploreAll(sc2, 0, func(rr *runResult) { emitGen(o, sc2, rr, []string{"exhaustive-3-chain"}) })
		sc3 := &scenario{cinit: withA, tags: []string{"generated-id", "gen-scenario:caller[delete;gen-add]+gen-add", "sequential-caller"},
			prog: []*fcall{del(eA), genAdd(1, A, B), genAdd(2, A, D)}, after: map[int][]int{2: {0}}}
		exploreAll(sc3, 0, func(rr *runResult) { emitGen(o, sc3, rr, []string{"exhaustive-3-chain"}) })
	}
	// three and four threads, sampled
	n := 60
	if tier == "thorough" {
		n = 2500
	}
	pool := []func(t int) *fcall{
		func(t int) *fcall { return genAdd(t, A, B, C) },
		func(t int) *fcall { return genAdd(t, B, A) },
		func(t int) *fcall { return genUpsert(t, true, A, C) },
		func(t int) *fcall { return del(eA) },
		func(t int) *fcall { return del(enc1(B, 1)) },
		func(t int) *fcall { return add(t, eA) },
		func(t int) *fcall { return upsertCb(t, eA) },
		func(t int) *fcall { return deltaCb(t, enc1(B, 0)) },
	}
	for k := 0; k < n; k++ {
		nt := 3 + r.Intn(2)
		init := other
		if r.Bool() {
			init = withA
		}
		sc := &scenario{cinit: init, tags: []string{"generated-id", fmt.Sprintf("gen-sampled-%d", nt)}}
		for t := 0; t < nt; t++ {
			sc.prog = append(sc.prog, pool[r.Intn(len(pool))](t))
		}
		rr := runSchedule(sc, nil, func(alive []int) int { return alive[r.Intn(len(alive))] })
		emitGen(o, sc, rr, nil)
	}
}

// asciiLower: the id interceptor IdLower of Resource/Flat.v
func asciiLower(s string) string {
	b := []byte(s)
	for k, c := range b {
		if c >= 'A' && c <= 'Z' {
			b[k] = c + 32
		}
	}
	return string(b)
}
