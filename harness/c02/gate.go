package main

// The gate controller.  Managed goroutines (the ones issuing API calls) are identified by their
// goroutine id and park at every verifhook yield point of pkg/resource; the controller executes a
// schedule "let thread t run to its next yield point or its end".  Goroutines of the library
// (bus listeners, Pull forwarders) and the consumers are not managed and run free.

import (
	"bytes"
	"fmt"
	"runtime"
	"strconv"
	"sync"
	"time"

	"github.com/smart-core-os/sc-golang/internal/verifhook"
)

// the yield points that delimit the model's atomic steps (coq/theories/Conc/Lts.v); the bus has
// yield points of its own (C10) which are not gates here
var gatePoints = map[string]bool{
	"gau.read": true, "value.publish": true, "coll.publish": true, "del.read": true, "del.retry": true,
}

func curGID() int64 {
	var buf [64]byte
	n := runtime.Stack(buf[:], false)
	// "goroutine 123 [running]:"
	b := buf[:n]
	b = bytes.TrimPrefix(b, []byte("goroutine "))
	i := bytes.IndexByte(b, ' ')
	if i < 0 {
		return -1
	}
	id, err := strconv.ParseInt(string(b[:i]), 10, 64)
	if err != nil {
		return -1
	}
	return id
}

type thread struct {
	gid    int64
	park   chan string
	resume chan struct{}
	done   chan struct{}
	at     string // last yield point reached
	ended  bool
	steps  int
}

type controller struct {
	mu      sync.RWMutex
	threads map[int64]*thread
}

var ctl = &controller{threads: map[int64]*thread{}}

func init() {
	verifhook.Set(func(point string) {
		if !gatePoints[point] {
			return
		}
		gid := curGID()
		ctl.mu.RLock()
		t := ctl.threads[gid]
		ctl.mu.RUnlock()
		if t == nil {
			return
		}
		t.park <- point
		<-t.resume
	})
}

// spawn starts a managed goroutine that runs fn once it is first released.
func (c *controller) spawn(fn func()) *thread {
	t := &thread{park: make(chan string), resume: make(chan struct{}), done: make(chan struct{})}
	ready := make(chan struct{})
	go func() {
		t.gid = curGID()
		c.mu.Lock()
		c.threads[t.gid] = t
		c.mu.Unlock()
		close(ready)
		<-t.resume
		defer func() {
			c.mu.Lock()
			delete(c.threads, t.gid)
			c.mu.Unlock()
			close(t.done)
		}()
		fn()
	}()
	<-ready
	return t
}

var stepTimeout = 2 * time.Second

// step releases t and waits until it parks again or ends.  A released thread that does neither
// within the timeout is a correspondence failure (the model says enabled, the code is blocked).
func (c *controller) step(t *thread) error {
	if t.ended {
		return fmt.Errorf("thread already ended")
	}
	t.resume <- struct{}{}
	t.steps++
	select {
	case p := <-t.park:
		t.at = p
		return nil
	case <-t.done:
		t.ended = true
		return nil
	case <-time.After(stepTimeout):
		return fmt.Errorf("released thread neither parked nor finished within %v (last at %q)", stepTimeout, t.at)
	}
}

// abandon lets every unfinished thread run to its end (used after a failure so nothing leaks)
func (c *controller) abandon(ts []*thread) {
	for _, t := range ts {
		for !t.ended {
			select {
			case t.resume <- struct{}{}:
			case <-t.done:
				t.ended = true
				continue
			case <-time.After(stepTimeout):
				t.ended = true
				continue
			}
			select {
			case <-t.park:
			case <-t.done:
				t.ended = true
			case <-time.After(stepTimeout):
				t.ended = true
			}
		}
	}
}
