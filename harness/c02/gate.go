package main

// The gate controller.  Managed goroutines (the ones issuing API calls) are identified by their
// goroutine id and park at every verifhook yield point of pkg/resource; the controller executes a
// schedule "let thread t run to its next yield point or its end".  Goroutines of the library
// (bus listeners, Pull forwarders) and the consumers are not managed and run free.

import (
	"bytes"
	"fmt"
	"runtime"
	"strconv"
	"sync"
	"sync/atomic"
	"time"

	"github.com/smart-core-os/sc-golang/internal/verifhook"
)

// the yield points that delimit the model's atomic steps (coq/theories/Conc/Lts.v); the bus has
// yield points of its own (C10) which are not gates here
var gatePoints = map[string]bool{
	"gau.read": true, "value.publish": true, "coll.publish": true, "del.read": true, "del.retry": true,
}

func curGID() int64 {
	var buf [64]byte
	n := runtime.Stack(buf[:], false)
	// "goroutine 123 [running]:"
	b := buf[:n]
	b = bytes.TrimPrefix(b, []byte("goroutine "))
	i := bytes.IndexByte(b, ' ')
	if i < 0 {
		return -1
	}
	id, err := strconv.ParseInt(string(b[:i]), 10, 64)
	if err != nil {
		return -1
	}
	return id
}

// yield points INSIDE a lock, used only by lock-held probes (one thread at a time asks for one)
var probePoints = map[string]bool{"bus.send.snapshot": true, "bus.listen.register": true, "pull.opened": true}

type thread struct {
	extra  atomic.Value // string: the probe point this thread also parks at
	gid    int64
	park   chan string
	resume chan struct{}
	done   chan struct{}
	at     string // last yield point reached
	ended  bool
	steps  int
	// PullID: the call returns at once and its goroutine (not one of ours) opens the inner Pull later;
	// that goroutine is adopted when it reaches pullid.open and becomes the thread's second step
	wantAdopt   bool
	adoptCh     chan *thread
	adoptee     *thread
	callerEnded bool
}

type controller struct {
	mu       sync.RWMutex
	threads  map[int64]*thread
	adopting *thread // the PullID caller waiting for its goroutine
}

var ctl = &controller{threads: map[int64]*thread{}}

func init() {
	verifhook.Set(func(point string) {
		if !gatePoints[point] && !probePoints[point] && point != "pullid.open" {
			return
		}
		gid := curGID()
		ctl.mu.RLock()
		t := ctl.threads[gid]
		ctl.mu.RUnlock()
		if point == "pullid.open" {
			if t != nil {
				return
			}
			ctl.mu.Lock()
			caller := ctl.adopting
			ctl.adopting = nil
			var a *thread
			if caller != nil {
				a = &thread{gid: gid, park: make(chan string), resume: make(chan struct{}), done: make(chan struct{})}
				a.extra.Store("")
				ctl.threads[gid] = a
			}
			ctl.mu.Unlock()
			if a == nil {
				return
			}
			caller.adoptCh <- a
			a.park <- point
			<-a.resume
			return
		}
		if t == nil {
			return
		}
		if !gatePoints[point] && t.extra.Load() != point {
			return
		}
		t.park <- point
		<-t.resume
	})
}

// spawn starts a managed goroutine that runs fn once it is first released.
func (c *controller) spawn(fn func()) *thread {
	t := &thread{park: make(chan string), resume: make(chan struct{}), done: make(chan struct{})}
	t.extra.Store("")
	ready := make(chan struct{})
	go func() {
		t.gid = curGID()
		c.mu.Lock()
		c.threads[t.gid] = t
		c.mu.Unlock()
		close(ready)
		<-t.resume
		defer func() {
			c.mu.Lock()
			delete(c.threads, t.gid)
			c.mu.Unlock()
			close(t.done)
		}()
		fn()
	}()
	<-ready
	return t
}

// A released thread that neither parks nor ends is recognised by the wait states of the goroutines
// (every one of them blocked: nothing can happen any more), not by the clock, so that a loaded
// machine cannot produce a timeout; stepTimeout is only the last resort.
var stepTimeout = 60 * time.Second

// after a failure: how long an unfinished thread is given to run to its end
var abandonTimeout = 2 * time.Second

// stuck: nothing has happened for a while and every goroutine is blocked
func stuck(since time.Time) bool {
	return time.Since(since) > 20*time.Millisecond && quiescent()
}

// awaitPark waits until the thread parks (p) or ends (ended); err: it is blocked for good
func awaitPark(park <-chan string, done <-chan struct{}) (p string, ended bool, err error) {
	start := time.Now()
	for {
		select {
		case p := <-park:
			return p, false, nil
		case <-done:
			return "", true, nil
		case <-time.After(5 * time.Millisecond):
		}
		if stuck(start) {
			// the snapshot may show the thread blocked handing us its yield point
			select {
			case p := <-park:
				return p, false, nil
			case <-done:
				return "", true, nil
			default:
			}
			return "", false, fmt.Errorf("blocked (every goroutine is waiting)")
		}
		if time.Since(start) > stepTimeout {
			return "", false, fmt.Errorf("no progress within %v", stepTimeout)
		}
	}
}

// step releases t and waits until it parks again or ends.  A released thread that does neither
// within the timeout is a correspondence failure (the model says enabled, the code is blocked).
func (c *controller) step(t *thread) error {
	if t.ended {
		return fmt.Errorf("thread already ended")
	}
	if t.wantAdopt && t.callerEnded {
		// second step of a PullID thread: its goroutine opens the inner Pull
		a := t.adoptee
		a.extra.Store("pull.opened")
		a.resume <- struct{}{}
		p, _, err := awaitPark(a.park, nil)
		if err != nil {
			return fmt.Errorf("PullID goroutine did not open its Pull: %v", err)
		}
		if p != "pull.opened" {
			return fmt.Errorf("PullID goroutine parked at %q", p)
		}
		a.extra.Store("")
		c.mu.Lock()
		delete(c.threads, a.gid)
		c.mu.Unlock()
		a.resume <- struct{}{} // it runs free from here on
		t.ended = true
		return nil
	}
	if t.wantAdopt {
		c.mu.Lock()
		c.adopting = t
		c.mu.Unlock()
	}
	t.resume <- struct{}{}
	t.steps++
	p, ended, err := awaitPark(t.park, t.done)
	if err != nil {
		return fmt.Errorf("released thread neither parked nor finished: %v (last at %q)", err, t.at)
	}
	if !ended {
		t.at = p
		return nil
	}
	if t.wantAdopt {
		// the call has returned; wait for its goroutine to reach pullid.open
		start := time.Now()
		for {
			select {
			case a := <-t.adoptCh:
				if _, _, err := awaitPark(a.park, nil); err != nil {
					return fmt.Errorf("adopted goroutine did not park: %v", err)
				}
				t.adoptee = a
				t.callerEnded = true
				return nil
			case <-time.After(5 * time.Millisecond):
			}
			if stuck(start) {
				select {
				case a := <-t.adoptCh:
					if _, _, err := awaitPark(a.park, nil); err != nil {
						return fmt.Errorf("adopted goroutine did not park: %v", err)
					}
					t.adoptee = a
					t.callerEnded = true
					return nil
				default:
				}
				return fmt.Errorf("PullID's goroutine did not reach pullid.open (every goroutine is waiting)")
			}
			if time.Since(start) > stepTimeout {
				return fmt.Errorf("PullID's goroutine did not reach pullid.open within %v", stepTimeout)
			}
		}
	}
	t.ended = true
	return nil
}

// abandon lets every unfinished thread run to its end (used after a failure so nothing leaks)
func (c *controller) abandon(ts []*thread) {
	for _, t := range ts {
		if t.wantAdopt && t.callerEnded && !t.ended {
			c.mu.Lock()
			delete(c.threads, t.adoptee.gid)
			c.mu.Unlock()
			select {
			case t.adoptee.resume <- struct{}{}:
			case <-time.After(abandonTimeout):
			}
			t.ended = true
			continue
		}
		for !t.ended {
			select {
			case t.resume <- struct{}{}:
			case <-t.done:
				t.ended = true
				continue
			case <-time.After(abandonTimeout):
				t.ended = true
				continue
			}
			select {
			case <-t.park:
			case <-t.done:
				t.ended = true
			case <-time.After(abandonTimeout):
				t.ended = true
			}
		}
	}
}

// probeLockHeld parks `holder` at a yield point that lies inside a lock, releases `other` into a
// step that needs the same lock, and reports whether `other` was kept out until `holder` moved on.
// Afterwards both have completed one model step each (holder first), or an error is returned.
func (c *controller) probeLockHeld(holder *thread, point string, other *thread) (blocked bool, err error) {
	holder.extra.Store(point)
	holder.resume <- struct{}{}
	holder.steps++
	select {
	case p := <-holder.park:
		if p != point {
			holder.extra.Store("")
			holder.at = p
			return false, fmt.Errorf("holder parked at %q before reaching %q", p, point)
		}
	case <-holder.done:
		holder.ended = true
		return false, fmt.Errorf("holder ended before reaching %q", point)
	case <-time.After(stepTimeout):
		return false, fmt.Errorf("holder did not reach %q", point)
	}
	holder.extra.Store("")
	// holder is inside the lock now; let the other thread try
	other.resume <- struct{}{}
	other.steps++
	otherDone := false
	select {
	case p := <-other.park:
		other.at = p
		otherDone = true
	case <-other.done:
		other.ended = true
		otherDone = true
	case <-time.After(60 * time.Millisecond):
		blocked = true
	}
	// let the holder finish its step
	holder.resume <- struct{}{}
	select {
	case p := <-holder.park:
		holder.at = p
	case <-holder.done:
		holder.ended = true
	case <-time.After(stepTimeout):
		return blocked, fmt.Errorf("holder did not finish its step")
	}
	if !otherDone {
		select {
		case p := <-other.park:
			other.at = p
		case <-other.done:
			other.ended = true
		case <-time.After(stepTimeout):
			return blocked, fmt.Errorf("blocked thread did not resume after the lock was released")
		}
	}
	return blocked, nil
}

// inTurnstile reports whether the goroutine is waiting in resource.(*turnstile).enter
func inTurnstile(gid int64) bool {
	var n int
	for {
		n = runtime.Stack(stackBuf, true)
		if n < len(stackBuf) {
			break
		}
		stackBuf = make([]byte, 2*len(stackBuf))
	}
	head := []byte(fmt.Sprintf("goroutine %d [", gid))
	for _, b := range bytes.Split(stackBuf[:n], []byte("\n\n")) {
		if bytes.HasPrefix(b, head) {
			return bytes.Contains(b, []byte("resource.(*turnstile).enter"))
		}
	}
	return false
}

// probeTurnstile: `first` is parked at its *.publish holding the earlier commit; `second` (parked at its
// *.publish with a later commit, or a Delete about to commit) is released.  It must not get past the
// turnstile until `first` has published: blocked = every goroutine came to rest with `second` waiting in
// turnstile.enter (read from the goroutine wait states, not from the clock).  Then `first` is released; it
// must be able to publish although `second` may be holding the collection's write lock, after which
// `second` completes its step.  If `second` was not kept back, it has completed its step before `first`.
func (c *controller) probeTurnstile(first, second *thread) (blocked bool, err error) {
	second.resume <- struct{}{}
	second.steps++
	secondDone := false
	start := time.Now()
	for !secondDone && !blocked {
		select {
		case p := <-second.park:
			second.at, secondDone = p, true
		case <-second.done:
			second.ended, secondDone = true, true
		case <-time.After(2 * time.Millisecond):
			if stuck(start) {
				select {
				case p := <-second.park:
					second.at, secondDone = p, true
				case <-second.done:
					second.ended, secondDone = true, true
				default:
					if !inTurnstile(second.gid) {
						return false, fmt.Errorf("the released thread is blocked, but not in the turnstile (last at %q)", second.at)
					}
					blocked = true
				}
			} else if time.Since(start) > stepTimeout {
				return false, fmt.Errorf("the released thread made no progress within %v", stepTimeout)
			}
		}
	}
	// the earlier commit goes on, up to the inside of its Send (it has passed the turnstile, has copied the
	// listener list and has delivered nothing yet): the later one must STILL be waiting -- the turnstile is
	// held until the publication has been delivered, not merely until it has been entered
	first.extra.Store("bus.send.snapshot")
	first.resume <- struct{}{}
	first.steps++
	p, ended, err := awaitPark(first.park, first.done)
	first.extra.Store("")
	if err != nil {
		return blocked, fmt.Errorf("the earlier commit could not publish while the later one was waiting: %v", err)
	}
	if !ended && p == "bus.send.snapshot" {
		if !secondDone {
			if err := settle(); err != nil {
				return blocked, err
			}
			select {
			case p2 := <-second.park:
				second.at, secondDone, blocked = p2, true, false
			case <-second.done:
				second.ended, secondDone, blocked = true, true, false
			default:
				if !inTurnstile(second.gid) {
					return false, fmt.Errorf("the released thread is blocked, but not in the turnstile (last at %q)", second.at)
				}
			}
		}
		first.resume <- struct{}{}
		p, ended, err = awaitPark(first.park, first.done)
		if err != nil {
			return blocked, fmt.Errorf("the earlier commit could not finish its publication: %v", err)
		}
	}
	if ended {
		first.ended = true
	} else {
		first.at = p
	}
	if !secondDone {
		p, ended, err := awaitPark(second.park, second.done)
		if err != nil {
			return blocked, fmt.Errorf("the thread waiting in the turnstile did not resume after the earlier commit had published: %v", err)
		}
		if ended {
			second.ended = true
		} else {
			second.at = p
		}
	}
	return blocked, nil
}
