package main

// The configuration the shared resources are CONSTRUCTED with (Conc/Judge.v fcfg, ccase CaseCfg): an
// equivalence (resource.WithEquivalence / WithNoDuplicates).  It is the comparer Pull uses to drop changes
// its subscriber need not hear about and is usually not exact (a float tolerance, ignored time fields).
// The write path must not consult it: the racing writes of these scenarios store values that are
// EQUIVALENT BUT NOT EQUAL to the value the other writer read (within the tolerance / differing only in
// an ignored field), next to values just outside the tolerance.

import (
	"fmt"

	"google.golang.org/protobuf/proto"

	"github.com/smart-core-os/sc-golang/internal/testproto"
	"github.com/smart-core-os/sc-golang/pkg/resource"

	"github.com/smart-core-os/sc-golang/verifharness/vcoq"
)

const (
	eqExact = iota // WithNoDuplicates
	eqField        // only field f is compared
	eqTol          // field f within k, the other fields equal
	eqNone         // no equivalence configured
)

// rcfg: the equivalence and the writable fields (resource.WithWritablePaths; Conc/Judge.v cf_writable) the
// shared Value and Collection are constructed with
type rcfg struct {
	kind        int
	f           fld
	k           int64
	writable    []fld
	hasWritable bool
}

func (c *rcfg) coq() string {
	rw := coqOptFlds(c.writable, c.hasWritable)
	switch c.kind {
	case eqNone:
		return vcoq.App("mkCfg", "None", rw)
	case eqExact:
		return vcoq.App("mkCfg", "(Some CqExact)", rw)
	case eqField:
		return vcoq.App("mkCfg", vcoq.Some(vcoq.App("CqField", fldCoq[c.f])), rw)
	}
	return vcoq.App("mkCfg", vcoq.Some(vcoq.App("CqTol", fldCoq[c.f], vcoq.Z(c.k))), rw)
}

func (c *rcfg) tag() string {
	return []string{"exact", "one-field-only", "tolerance", "none"}[c.kind]
}

func (c *rcfg) js() any {
	var e string
	switch c.kind {
	case eqNone:
		e = "no equivalence"
	case eqExact:
		e = "WithNoDuplicates (proto.Equal)"
	case eqField:
		e = fmt.Sprintf("WithEquivalence: only %s is compared", fldPath[c.f])
	default:
		e = fmt.Sprintf("WithEquivalence: %s may differ by at most %d, every other field equal", fldPath[c.f], c.k)
	}
	if c.hasWritable {
		return map[string]any{"equivalence": e, "writable_paths": jsFlds(c.writable)}
	}
	return e
}

func (c *rcfg) options() []resource.Option {
	var out []resource.Option
	if c.hasWritable {
		out = append(out, resource.WithWritablePaths(&testproto.TestAllTypes{}, pathsOf(c.writable)...))
	}
	if c.kind == eqNone {
		return out
	}
	return append(out, c.equivOption())
}

func (c *rcfg) equivOption() resource.Option {
	if c.kind == eqExact {
		return resource.WithNoDuplicates()
	}
	return resource.WithEquivalence(resource.ComparerFunc(func(x, y proto.Message) bool {
		mx, my := fromProto(x), fromProto(y)
		if mx == nil || my == nil {
			return mx == nil && my == nil
		}
		get := func(m *fmsg) int64 { return []int64{m.a, m.b, m.c}[c.f] }
		if c.kind == eqField {
			return get(mx) == get(my)
		}
		d := get(mx) - get(my)
		if d < 0 {
			d = -d
		}
		if d > c.k {
			return false
		}
		ax, ay := *mx, *my
		switch c.f {
		case fa:
			ax.a, ay.a = 0, 0
		case fb:
			ax.b, ay.b = 0, 0
		default:
			ax.c, ay.c = 0, 0
		}
		return ax == ay
	}))
}

// writers whose values lie NEAR the stored one (5 for the Value, 1 for item "a"): with the tolerance 3
// on the first field most results are equivalent to the value read, a few just outside
var nearValueTmpls = []tmpl{
	{"near-cas", func(t int, b int64) *fcall {
		return &fcall{kind: kSet, msg: fmsg{6 + int64(t), 0, 0}, o: &fwo{expected: &fmsg{5, 0, 0}}}
	}},
	{"near-delta", func(t int, b int64) *fcall {
		return &fcall{kind: kSet, msg: fmsg{1 + int64(t), 0, 0}, o: &fwo{before: &icpt{kind: 0, f: fa}}}
	}},
	{"near-check", func(t int, b int64) *fcall {
		return &fcall{kind: kSet, msg: fmsg{3 + int64(t), 0, 3}, o: &fwo{check: &chk{kind: 0, f: fa, k: 5, code: 9}, time: ip(500 + int64(t))}}
	}},
	{"far-delta", func(t int, b int64) *fcall {
		return &fcall{kind: kSet, msg: fmsg{4 + int64(t), 0, 0}, o: &fwo{before: &icpt{kind: 0, f: fa}}}
	}},
	{"other-field", func(t int, b int64) *fcall {
		return &fcall{kind: kSet, msg: fmsg{0, 7 + int64(t), 0}, o: &fwo{hasUpdate: true, update: []fld{fb}}}
	}},
}

var nearCollTmpls = []tmpl{
	{"near-upsert-delta", func(t int, b int64) *fcall {
		return &fcall{kind: kUpdate, id: "a", msg: fmsg{1 + int64(t), 0, 0}, o: &fwo{create: true, before: &icpt{kind: 0, f: fa}}}
	}},
	{"near-update-cas", func(t int, b int64) *fcall {
		return &fcall{kind: kUpdate, id: "a", msg: fmsg{2 + int64(t), 0, 0}, o: &fwo{expected: &fmsg{1, 0, 0}}}
	}},
	{"near-update-check", func(t int, b int64) *fcall {
		return &fcall{kind: kUpdate, id: "a", msg: fmsg{3 + int64(t), 0, 0}, o: &fwo{check: &chk{kind: 0, f: fa, k: 1, code: 9}}}
	}},
	{"delete-expected", func(t int, b int64) *fcall {
		return &fcall{kind: kDelete, id: "a", o: &fwo{expected: &fmsg{1, 0, 0}}}
	}},
	{"delete-check", func(t int, b int64) *fcall {
		return &fcall{kind: kDelete, id: "a", o: &fwo{check: &chk{kind: 0, f: fa, k: 1, code: 9}}}
	}},
}

// writers on resources constructed with WithWritablePaths(default_int32): what a call may write is the union of
// the resource's writable fields and its own WithMoreWritablePaths, lifted by WithAllFieldsWritable (opt.go
// fieldUpdater); an update mask outside it is InvalidArgument before anything is read
var writableValueTmpls = []tmpl{
	{"w-cas-extra-field", func(t int, b int64) *fcall { // the second field is not writable: silently not merged
		return &fcall{kind: kSet, msg: fmsg{6 + int64(t), 9 + int64(t), 0}, o: &fwo{expected: &fmsg{5, 0, 0}}}
	}},
	{"w-delta-extra-field", func(t int, b int64) *fcall {
		return &fcall{kind: kSet, msg: fmsg{1 + int64(t), 0, 4}, o: &fwo{before: &icpt{kind: 0, f: fa}}}
	}},
	{"w-mask-unwritable", func(t int, b int64) *fcall { // InvalidArgument
		return &fcall{kind: kSet, msg: fmsg{0, 7 + int64(t), 0}, o: &fwo{hasUpdate: true, update: []fld{fb}}}
	}},
	{"w-mask-more-writable", func(t int, b int64) *fcall {
		return &fcall{kind: kSet, msg: fmsg{0, 17 + int64(t), 0}, o: &fwo{hasUpdate: true, update: []fld{fb}, hasMoreWritable: true, moreWritable: []fld{fb}}}
	}},
	{"w-all-writable", func(t int, b int64) *fcall {
		return &fcall{kind: kSet, msg: fmsg{20 + int64(t), 21 + int64(t), 22}, o: &fwo{allWritable: true, expected: &fmsg{5, 0, 0}}}
	}},
}

var writableCollTmpls = []tmpl{
	{"w-upsert-extra-field", func(t int, b int64) *fcall {
		return &fcall{kind: kUpdate, id: "a", msg: fmsg{2 + int64(t), 8 + int64(t), 0}, o: &fwo{create: true, before: &icpt{kind: 0, f: fa}}}
	}},
	{"w-update-cas-more-writable", func(t int, b int64) *fcall {
		return &fcall{kind: kUpdate, id: "a", msg: fmsg{3 + int64(t), 13 + int64(t), 0}, o: &fwo{expected: &fmsg{1, 0, 0}, hasMoreWritable: true, moreWritable: []fld{fb}}}
	}},
	{"w-update-mask-unwritable", func(t int, b int64) *fcall { // InvalidArgument
		return &fcall{kind: kUpdate, id: "a", msg: fmsg{0, 0, 5 + int64(t)}, o: &fwo{hasUpdate: true, update: []fld{fc}}}
	}},
	{"w-add-all-writable", func(t int, b int64) *fcall {
		return &fcall{kind: kAdd, id: "a", msg: fmsg{30 + int64(t), 31, 32}, o: &fwo{allWritable: true}}
	}},
	{"w-delete-expected", func(t int, b int64) *fcall {
		return &fcall{kind: kDelete, id: "a", o: &fwo{expected: &fmsg{1, 0, 0}}}
	}},
}

var writableVariants = []*rcfg{
	{kind: eqNone, hasWritable: true, writable: []fld{fa}},
	{kind: eqTol, f: fa, k: 3, hasWritable: true, writable: []fld{fa}},
}

var cfgVariants = []*rcfg{{kind: eqTol, f: fa, k: 3}, {kind: eqField, f: fc}, {kind: eqExact}}

// genCfgCases: every interleaving of two writers on resources constructed with an equivalence, plus
// runs with a subscriber (whose stream is where the equivalence IS visible) and sampled three-writer runs
func genCfgCases(o *vcoq.Out, r *vcoq.Rand, tier string, base int64) {
	emit := func(sc *scenario, tags ...string) func(*runResult) {
		return func(rr *runResult) { emitCase(o, sc, rr, tags) }
	}
	for ci, cfg := range cfgVariants {
		ctag := "equivalence:" + cfg.tag()
		// the exact equivalence cannot tell more values apart than proto.Equal: a few pairs only
		vt, ct := nearValueTmpls, nearCollTmpls
		if cfg.kind == eqExact {
			vt, ct = vt[:2], ct[:2]
		}
		for i, a := range vt {
			for j := i; j < len(vt); j++ {
				sc := &scenario{cfg: cfg, vinit: &vinit0, prog: []*fcall{mkCall(a, 0, base), mkCall(vt[j], 1, base)},
					tags: []string{"pair:" + a.name + "+" + vt[j].name, "resource:value", ctag}}
				exploreAll(sc, 0, emit(sc, "exhaustive-2", "configured"))
			}
		}
		for i, a := range ct {
			for j := i; j < len(ct); j++ {
				if i >= 3 && j >= 3 {
					continue // two Deletes: nothing is written
				}
				sc := &scenario{cfg: cfg, cinit: collInit(true), prog: []*fcall{mkCall(a, 0, base), mkCall(ct[j], 1, base)},
					tags: []string{"pair:" + a.name + "+" + ct[j].name, "resource:collection", ctag}}
				exploreAll(sc, 0, emit(sc, "exhaustive-2", "configured"))
			}
		}
		// the seed-template writers of the plain tier (values far from the stored one) under the equivalence
		// that ignores the field they write: every result is "equivalent" to what the other writer read
		if cfg.kind == eqField {
			for i, a := range valueTmpls {
				for j := i; j < len(valueTmpls); j++ {
					sc := &scenario{cfg: cfg, vinit: &vinit0, prog: []*fcall{mkCall(a, 0, base), mkCall(valueTmpls[j], 1, base)},
						tags: []string{"pair:" + a.name + "+" + valueTmpls[j].name, "resource:value", ctag}}
					exploreAll(sc, 0, emit(sc, "exhaustive-2", "configured"))
				}
			}
		}
		// no initial value: old is nil at the first read, and nil is equivalent to nil only
		{
			sc := &scenario{cfg: cfg, prog: []*fcall{mkCall(nearValueTmpls[1], 0, base), mkCall(nearValueTmpls[4], 1, base)},
				tags: []string{"resource:value", "initial:nil", ctag}}
			exploreAll(sc, 0, emit(sc, "exhaustive-2", "configured"))
		}
		// with a subscriber: what it receives depends on the equivalence, what the writers return does not
		if ci < 2 {
			sc := &scenario{cfg: cfg, vinit: &vinit0, tags: []string{"resource:value", "with-subscriber", ctag},
				prog: []*fcall{mkCall(nearValueTmpls[1], 0, base), mkCall(nearValueTmpls[3], 1, base), subCall(true, roVariants[0])}}
			exploreAll(sc, 60, emit(sc, "configured"))
			sc = &scenario{cfg: cfg, cinit: collInit(true), tags: []string{"resource:collection", "with-subscriber", ctag},
				prog: []*fcall{mkCall(nearCollTmpls[0], 0, base), mkCall(nearCollTmpls[1], 1, base), subCall(false, roVariants[0])}}
			exploreAll(sc, 60, emit(sc, "configured"))
		}
	}
	// resources constructed with writable fields (with and without an equivalence): every interleaving of two writers
	for wi, cfg := range writableVariants {
		ctag := "writable-fields:" + fmt.Sprint(jsFlds(cfg.writable))
		vt, ct := writableValueTmpls, writableCollTmpls
		if wi > 0 {
			vt, ct = vt[:3], ct[:2]
		}
		for i, a := range vt {
			for j := i; j < len(vt); j++ {
				sc := &scenario{cfg: cfg, vinit: &vinit0, prog: []*fcall{mkCall(a, 0, base), mkCall(vt[j], 1, base)},
					tags: []string{"pair:" + a.name + "+" + vt[j].name, "resource:value", ctag, "equivalence:" + cfg.tag()}}
				exploreAll(sc, 0, emit(sc, "exhaustive-2", "configured"))
			}
		}
		for _, present := range []bool{true, false} {
			if wi > 0 && !present {
				continue
			}
			for i, a := range ct {
				for j := i; j < len(ct); j++ {
					sc := &scenario{cfg: cfg, cinit: collInit(present), prog: []*fcall{mkCall(a, 0, base), mkCall(ct[j], 1, base)},
						tags: []string{"pair:" + a.name + "+" + ct[j].name, "resource:collection", ctag, "equivalence:" + cfg.tag()}}
					exploreAll(sc, 0, emit(sc, "exhaustive-2", "configured"))
				}
			}
		}
	}
	n := 40
	if tier == "thorough" {
		n = 1500
	}
	for k := 0; k < n; k++ {
		if r.Chance(25) {
			// a sampled mix on a resource with writable fields
			cfg := &rcfg{kind: eqNone, hasWritable: true, writable: [][]fld{{fa}, {fb}, {fa, fc}}[r.Intn(3)]}
			nt := 3 + r.Intn(2)
			sc := &scenario{cfg: cfg, vinit: &vinit0, cinit: collInit(true)}
			onValue := r.Chance(50)
			for t := 0; t < nt; t++ {
				if onValue {
					sc.prog = append(sc.prog, mkCall(writableValueTmpls[r.Intn(len(writableValueTmpls))], t, base))
				} else {
					sc.prog = append(sc.prog, mkCall(writableCollTmpls[r.Intn(len(writableCollTmpls))], t, base))
				}
			}
			sc.tags = []string{fmt.Sprintf("sampled-%d", nt), "configured", "writable-fields:" + fmt.Sprint(jsFlds(cfg.writable))}
			rr := runSchedule(sc, nil, func(alive []int) int { return alive[r.Intn(len(alive))] })
			emitCase(o, sc, rr, nil)
			continue
		}
		cfg := cfgVariants[r.Intn(2)]
		if r.Chance(30) {
			cfg = &rcfg{kind: eqTol, f: fa, k: int64(1 + r.Intn(4))}
		}
		nt := 3 + r.Intn(2)
		sc := &scenario{cfg: cfg, vinit: &vinit0, cinit: collInit(true)}
		onValue := r.Chance(60)
		for t := 0; t < nt; t++ {
			if onValue {
				sc.prog = append(sc.prog, mkCall(nearValueTmpls[r.Intn(len(nearValueTmpls))], t, base))
			} else {
				sc.prog = append(sc.prog, mkCall(nearCollTmpls[r.Intn(len(nearCollTmpls))], t, base))
			}
		}
		if r.Chance(25) {
			sc.prog = append(sc.prog, subCall(onValue, roVariants[0]))
		}
		sc.tags = []string{fmt.Sprintf("sampled-%d", nt), "configured", "equivalence:" + cfg.tag()}
		rr := runSchedule(sc, nil, func(alive []int) int { return alive[r.Intn(len(alive))] })
		emitCase(o, sc, rr, nil)
	}
}
