package main

// Gate-free stress: goroutines on all cores issue calls without any forced schedule; each call is
// stamped at invocation and at response from one atomic counter, and the recorded history is
// checked in Coq by linearizable_b (Conc/Judge.v).  A net for behaviours the gates cannot force.

import (
	"fmt"
	"sync"
	"sync/atomic"

	"github.com/smart-core-os/sc-golang/internal/verifhook"
	"github.com/smart-core-os/sc-golang/verifharness/vcoq"
)

type hrec struct {
	c         *fcall
	inv, resp int64
	out       fout
}

func stress(o *vcoq.Out, r *vcoq.Rand, base int64) {
	_ = verifhook.Yield // the hook stays installed; unmanaged goroutines pass straight through
	const histories = 4000
	for k := 0; k < histories; k++ {
		onValue := r.Chance(40)
		sc := &scenario{vinit: &vinit0, cinit: collInit(r.Bool())}
		nthreads := 2 + r.Intn(3)
		per := 1 + r.Intn(2)
		progs := make([][]*fcall, nthreads)
		for t := 0; t < nthreads; t++ {
			for j := 0; j < per; j++ {
				var c *fcall
				if onValue {
					c = mkCall(valueTmpls[r.Intn(len(valueTmpls))], t*per+j, base)
				} else {
					c = mkCall(collTmpls[r.Intn(len(collTmpls))], t*per+j, base)
				}
				progs[t] = append(progs[t], c)
			}
		}
		w := newWorld(sc)
		var clock atomic.Int64
		var mu sync.Mutex
		var hist []hrec
		start := make(chan struct{})
		var wg sync.WaitGroup
		for t := 0; t < nthreads; t++ {
			t := t
			wg.Add(1)
			go func() {
				defer wg.Done()
				<-start
				for _, c := range progs[t] {
					inv := clock.Add(1)
					out := w.exec(-1, c)
					resp := clock.Add(1)
					mu.Lock()
					hist = append(hist, hrec{c, inv, resp, out})
					mu.Unlock()
				}
			}()
		}
		close(start)
		wg.Wait()
		rr := &runResult{}
		w.finish(rr)
		items := make([]string, len(hist))
		js := []any{}
		tags := []string{fmt.Sprintf("stress:%dx%d", nthreads, per)}
		for i, h := range hist {
			items[i] = "(" + h.c.coq() + ", " + vcoq.Z(h.inv) + ", " + vcoq.Z(h.resp) + ", " + coqOut(h.out) + ")"
			js = append(js, map[string]any{"call": h.c.js(), "invoked": h.inv, "returned": h.resp, "msg": jsMsg(h.out.msg), "code": h.out.code})
			if h.out.code == 10 || h.out.code == 14 {
				tags = append(tags, "stress:lost-race")
			}
		}
		cinit := make([]string, len(sc.cinit))
		for i, it := range sc.cinit {
			cinit[i] = vcoq.Pair(vcoq.Pair(vcoq.Str(it.id), coqMsg(it.m)), vcoq.Z(it.t))
		}
		term := vcoq.App("CaseHist", "None", coqOptMsg(sc.vinit), vcoq.List(cinit), vcoq.List(items), coqOptMsg(rr.finalV), coqKVs(rr.finalC))
		o.Add(vcoq.Case{Coq: term, JSON: map[string]any{"history": js, "final_get": jsMsg(rr.finalV), "final_list": jsKVs(rr.finalC)},
			Key: term, NonTrivial: true, Tags: tags})
	}
}

// Gate-free stress for C03: writers on all cores and subscribers opened while they run; every
// subscriber's events are folded and compared with the final Get / List (Conc/Judge.v c03_pred, no model,
// no schedule).  With publications ordered by the turnstile this must hold in every run.
func stress03(o *vcoq.Out, r *vcoq.Rand, base int64, histories int) {
	for k := 0; k < histories; k++ {
		onValue := r.Chance(50)
		sc := &scenario{vinit: &vinit0, cinit: collInit(r.Bool())}
		nw := 2 + r.Intn(3)
		per := 2 + r.Intn(3)
		groups := make([][]int, nw) // the calls each writer goroutine issues, one after the other
		for g := 0; g < nw; g++ {
			for j := 0; j < per; j++ {
				var c *fcall
				if onValue {
					c = mkCall(valueTmpls[1+r.Intn(len(valueTmpls)-1)], len(sc.prog), base) // every template but the CAS (mostly failing)
				} else {
					c = mkCall(collTmpls[r.Intn(len(collTmpls))], len(sc.prog), base)
				}
				groups[g] = append(groups[g], len(sc.prog))
				sc.prog = append(sc.prog, c)
			}
		}
		ns := 1 + r.Intn(2)
		var subs []int
		for i := 0; i < ns; i++ {
			ro := roVariants[r.Intn(len(roVariants))]
			var c *fcall
			switch {
			case onValue:
				c = subCall(true, ro)
			case r.Chance(25):
				c = &fcall{kind: kSubID, id: "a", ro: &ro, name: "pull-id"}
			default:
				c = subCall(false, ro)
			}
			subs = append(subs, len(sc.prog))
			sc.prog = append(sc.prog, c)
		}
		spin := make([]int, len(subs))
		for i := range spin {
			spin[i] = r.Intn(4000)
		}
		w := newWorld(sc)
		results := make([]fout, len(sc.prog))
		start := make(chan struct{})
		var wg sync.WaitGroup
		for g := range groups {
			g := g
			wg.Add(1)
			go func() {
				defer wg.Done()
				<-start
				for _, t := range groups[g] {
					results[t] = w.exec(t, sc.prog[t])
				}
			}()
		}
		var sink atomic.Int64
		for i, t := range subs {
			i, t := i, t
			wg.Add(1)
			go func() {
				defer wg.Done()
				<-start
				for x := 0; x < spin[i]; x++ { // open the subscription somewhere among the writes
					sink.Add(1)
				}
				results[t] = w.exec(t, sc.prog[t])
			}()
		}
		close(start)
		if err := bounded("a free-running program", wg.Wait); err != nil {
			o.Directs = append(o.Directs, vcoq.Direct{What: err.Error(), Class: "gate-timeout", Replay: map[string]any{"program": jsProg(sc), "writer_goroutines": groups}})
			w.cancel()
			return // its goroutines stay blocked: no further programs
		}
		rr := &runResult{results: results}
		// PullID returns at once and opens its inner Pull on a goroutine of its own: wait until that has
		// happened (every goroutine at rest), or the subscription would begin after the final read
		if err := settle(); err != nil {
			rr.err = err
		} else {
			w.finish(rr)
		}
		if rr.err != nil {
			o.Directs = append(o.Directs, vcoq.Direct{What: "free-running program: " + rr.err.Error(), Class: "subscriber-cut-off",
				Replay: map[string]any{"program": jsProg(sc)}})
			continue
		}
		prog := make([]string, len(sc.prog))
		for i, c := range sc.prog {
			prog[i] = c.coq()
		}
		res := make([]string, len(results))
		jres := []any{}
		for i, x := range results {
			res[i] = coqOut(x)
			jres = append(jres, map[string]any{"msg": jsMsg(x.msg), "code": x.code})
		}
		cinit := make([]string, len(sc.cinit))
		for i, it := range sc.cinit {
			cinit[i] = vcoq.Pair(vcoq.Pair(vcoq.Str(it.id), coqMsg(it.m)), vcoq.Z(it.t))
		}
		var vs, cs []string
		jvs, jcs := map[string]any{}, map[string]any{}
		for _, t := range sortedKeys(rr.vstreams) {
			it := []string{}
			js := []any{}
			for _, e := range rr.vstreams[t] {
				it = append(it, coqOVChange(e))
				js = append(js, jsOVChange(e))
			}
			vs = append(vs, vcoq.Pair(vcoq.Nat(t), vcoq.List(it)))
			jvs[fmt.Sprint(t)] = js
		}
		for _, t := range sortedKeysC(rr.cstreams) {
			it := []string{}
			js := []any{}
			for _, e := range rr.cstreams[t] {
				it = append(it, coqOChange(e))
				js = append(js, jsOChange(e))
			}
			cs = append(cs, vcoq.Pair(vcoq.Nat(t), vcoq.List(it)))
			jcs[fmt.Sprint(t)] = js
		}
		term := vcoq.App("CaseFree", "None", coqOptMsg(sc.vinit), vcoq.List(cinit), vcoq.List(prog), vcoq.List(res),
			coqOptMsg(rr.finalV), coqKVs(rr.finalC), vcoq.List(vs), vcoq.List(cs), coqNats(rr.closed))
		res2 := "collection"
		if onValue {
			res2 = "value"
		}
		o.Add(vcoq.Case{Coq: term,
			JSON: map[string]any{"free_running": true, "program": jsProg(sc), "writer_goroutines": groups, "results": jres,
				"final_get": jsMsg(rr.finalV), "final_list": jsKVs(rr.finalC), "value_streams": jvs, "collection_streams": jcs, "pullid_closed": rr.closed},
			Key: term, NonTrivial: true,
			Tags: []string{"free-running", fmt.Sprintf("free-running:%dx%d+%dsubs", nw, per, ns), "free-running:" + res2}})
	}
}
