package main

// Gate-free stress: goroutines on all cores issue calls without any forced schedule; each call is
// stamped at invocation and at response from one atomic counter, and the recorded history is
// checked in Coq by linearizable_b (Conc/Judge.v).  A net for behaviours the gates cannot force.

import (
	"fmt"
	"sync"
	"sync/atomic"

	"github.com/smart-core-os/sc-golang/internal/verifhook"
	"github.com/smart-core-os/sc-golang/verifharness/vcoq"
)

type hrec struct {
	c         *fcall
	inv, resp int64
	out       fout
}

func stress(o *vcoq.Out, r *vcoq.Rand, base int64) {
	_ = verifhook.Yield // the hook stays installed; unmanaged goroutines pass straight through
	const histories = 4000
	for k := 0; k < histories; k++ {
		onValue := r.Chance(40)
		sc := &scenario{vinit: &vinit0, cinit: collInit(r.Bool())}
		nthreads := 2 + r.Intn(3)
		per := 1 + r.Intn(2)
		progs := make([][]*fcall, nthreads)
		for t := 0; t < nthreads; t++ {
			for j := 0; j < per; j++ {
				var c *fcall
				if onValue {
					c = mkCall(valueTmpls[r.Intn(len(valueTmpls))], t*per+j, base)
				} else {
					c = mkCall(collTmpls[r.Intn(len(collTmpls))], t*per+j, base)
				}
				progs[t] = append(progs[t], c)
			}
		}
		w := newWorld(sc)
		var clock atomic.Int64
		var mu sync.Mutex
		var hist []hrec
		start := make(chan struct{})
		var wg sync.WaitGroup
		for t := 0; t < nthreads; t++ {
			t := t
			wg.Add(1)
			go func() {
				defer wg.Done()
				<-start
				for _, c := range progs[t] {
					inv := clock.Add(1)
					out := w.exec(-1, c)
					resp := clock.Add(1)
					mu.Lock()
					hist = append(hist, hrec{c, inv, resp, out})
					mu.Unlock()
				}
			}()
		}
		close(start)
		wg.Wait()
		rr := &runResult{}
		w.finish(rr)
		items := make([]string, len(hist))
		js := []any{}
		tags := []string{fmt.Sprintf("stress:%dx%d", nthreads, per)}
		for i, h := range hist {
			items[i] = "(" + h.c.coq() + ", " + vcoq.Z(h.inv) + ", " + vcoq.Z(h.resp) + ", " + coqOut(h.out) + ")"
			js = append(js, map[string]any{"call": h.c.js(), "invoked": h.inv, "returned": h.resp, "msg": jsMsg(h.out.msg), "code": h.out.code})
			if h.out.code == 10 || h.out.code == 14 {
				tags = append(tags, "stress:lost-race")
			}
		}
		cinit := make([]string, len(sc.cinit))
		for i, it := range sc.cinit {
			cinit[i] = vcoq.Pair(vcoq.Pair(vcoq.Str(it.id), coqMsg(it.m)), vcoq.Z(it.t))
		}
		term := vcoq.App("CaseHist", "None", coqOptMsg(sc.vinit), vcoq.List(cinit), vcoq.List(items), coqOptMsg(rr.finalV), coqKVs(rr.finalC))
		o.Add(vcoq.Case{Coq: term, JSON: map[string]any{"history": js, "final_get": jsMsg(rr.finalV), "final_list": jsKVs(rr.finalC)},
			Key: term, NonTrivial: true, Tags: tags})
	}
}
